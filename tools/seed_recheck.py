#!/venv/bin/python
"""Re-run checks against kept seeded changes: tools/seed_recheck.py [--tier quick|thorough] [--props C04,C13] <seed-name>...  (or 'all')
Applies /verif/seeded/<name>/patch.diff to a scratch worktree of /repo HEAD (removed afterwards) and runs
./check <property> with FCVERIF_REPO pointing at it; updates meta.json (checks / detected_by)."""
import json, os, shutil, subprocess, sys, time
args = sys.argv[1:]
tier, props = 'quick', None
while args and args[0].startswith('--'):
    a = args.pop(0)
    if a == '--tier':
        tier = args.pop(0)
    elif a == '--props':
        props = args.pop(0).split(',')
names = args
if names == ['all']:
    names = sorted(os.listdir('/verif/seeded'))
os.makedirs('/tmp/fcev', exist_ok=True)
for name in names:
    sd = '/verif/seeded/%s' % name
    meta = json.load(open(os.path.join(sd, 'meta.json')))
    ev = '/tmp/fcev/re_%s' % name
    subprocess.run(['git', '-C', '/repo', 'worktree', 'remove', '--force', ev], stderr=subprocess.DEVNULL)
    subprocess.check_call(['git', '-C', '/repo', 'worktree', 'add', '--detach', ev, 'HEAD'], stdout=subprocess.DEVNULL, stderr=subprocess.DEVNULL)
    try:
        subprocess.check_call(['git', 'apply', os.path.join(sd, 'patch.diff')], cwd=ev)
        for p in (props or [meta.get('breaks') or meta['property']]):
            t0 = time.time()
            env = dict(os.environ, FCVERIF_REPO=ev, FCVERIF_NO_VALIDATE='1', FCVERIF_NO_REREPLAY='1', FCVERIF_NO_ANCHORS='1', FCVERIF_EVIDENCE_DIR='/tmp/fcev/ev_re_%s' % name)
            r = subprocess.run(['./check', p, '--tier', tier], cwd='/verif', env=env, stdout=subprocess.PIPE, stderr=subprocess.STDOUT, universal_newlines=True)
            first = next((l.strip()[:300] for l in r.stdout.splitlines() if l.startswith('  ') and ':' in l), None)
            meta.setdefault('checks', {})[p] = {'exit': r.returncode, 'detected': r.returncode == 1, 'first_violation': first, 'wall_s': round(time.time() - t0, 1), 'tier': tier}
            print(name, p, tier, 'exit', r.returncode, (first or '')[:200])
            if r.returncode not in (0, 1):
                print(r.stdout[-600:])
        meta['detected_by'] = sorted(p for p, rr in meta['checks'].items() if rr['detected'])
        json.dump(meta, open(os.path.join(sd, 'meta.json'), 'w'), indent=1)
    finally:
        subprocess.run(['git', '-C', '/repo', 'worktree', 'remove', '--force', ev], stderr=subprocess.DEVNULL)
        shutil.rmtree('/tmp/fcev/ev_re_%s' % name, ignore_errors=True)
