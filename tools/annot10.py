import json, os
AS = 'reported by the check as it stood'
M = 'missed; '
A = {
 'C01-19': ('read_fcs_data_segment: per-column byte offsets held in uint8 (wrap at 256)', 'mixed / odd widths and events longer than 255 bytes', M + '(the thorough tier had 100+ parameters) layouts of 64 and 90 parameters in the quick tier too'),
 'C01-20': ('read_fcs_data_segment: size check rewritten with divmod (remainder <= 1)', 'a single 8-bit parameter and the one-past-the-end convention', AS),
 'C02-19': ('clustering_gmm: arg-max responsibility instead of a sampled label', 'two subpopulations piled up at the same detector limit', M + 'saturation "two-brightest" in the bead generator and the lattice; the partition clause treats populations piled at one limit as one class spanning two clusters'),
 'C02-20': ('_LogicleTransform: M = max(4.5, 4.5 / (log10(262144) * log10(T)))', 'a channel range far above 2**18 (float files declaring 2**24) and dim, well resolved beads', M + 'float bead files with $PnR = 2**24 and the dimmest population at 50 / 80 / 150; the "wrongly excluded" clause now places populations with the reference logicle model instead of the library\'s own transform'),
 'C03-19': ('FCSData.__new__: $PnE overridden with (0, 0) for floating-point files', 'a float file whose $PnE declares a log amplifier', AS),
 'C03-20': ('to_rfi: amplification types cached at module level by file name, indexed by position', 'a reordered column selection converted after its parent', AS),
 'C04-19': ('FCSData.__getitem__: TypeError of the name lookup swallowed', 'a channel selector made of Python booleans', AS),
 'C04-20': ('FCSData.__setitem__: the Ellipsis test looks at key[0]', 'assignment through (Ellipsis, names) or (rows, Ellipsis)', AS),
 'C05-19': ('density2d: the nothing-to-keep shortcut taken only for gate_fraction == 0', 'no event inside the grid, gate_fraction > 0, full output', M + 'sparse kind (samples with none or exactly one event inside the grid); clause "nothing has to be kept => no bin is kept"'),
 'C05-20': ('density2d: "more than one event" judged on the in-grid events', 'a sample of two and more events with at most one inside the grid', M + 'the same sparse kind'),
 'C06-19': ('to_mef: with sc_channels omitted the curves are paired with the request', 'sc_channels=None and an explicit request (subset or other order)', AS),
 'C06-20': ('FCSData._name_to_index: lower bound of positions taken from the number of events', 'fewer events than channels and channels counted from the last', M + 'negative spellings (request and curve list) on samples of 0..3 events'),
 'C07-19': ('to_mef: a lower limit of 0 forced to stay 0', 'an increasing curve that is not zero at zero, on a channel whose RFI range starts at 0', M + 'mef-curves kind: calibration lines with offset, affine power laws, sqrt / exp / log1p with offset, on RFI and raw samples'),
 'C07-20': ('transform(): a non-finite converted limit replaced by the old limit', 'a law that diverges at the lower limit (log10, -1/x on a range starting at 0)', M + 'laws log10 and -1/x in the generic-transform kind'),
 'C08-19': ('high_low: default low threshold 0 instead of the channel\'s lower limit', 'a sample whose range does not start at 0 (converted), low omitted, events on the lower limit', M + 'container "fcs:shift" (values and limits moved up by one)'),
 'C08-20': ('start_end: negative num_end resets num_start', 'negative num_end with positive num_start', AS),
 'C09-19': ('fit_beads_autofluorescence: parameters rounded to two decimals after the fit (the curves are late-binding)', 'a slope / intercept off the 0.01 grid and a bright top bead', M + 'a second lattice shifted by (0.0137, 0.0449)'),
 'C09-20': ('fit_beads_autofluorescence: standard curve memoised by the identity of its argument', 'the same array evaluated again after an in-place change, or a returned array changed in place', M + 'buffer-history clause in the structural checks (std_crv and beads_model)'),
 'C10-19': ('process_samples_table: calibration looked up per row, before the units are known', 'a row without MEF units that names a failed / uncalibrated bead row', M + '(C11 reported it as it stood) dimension "beadsref": rows that ask for no MEF name a bead row whose file is missing'),
 'C10-20': ('process_samples_table: `units.lower() in (\'a.u.\' \'au\')` (substring test)', 'a units cell that is a fragment of "a.u.au" (a.u, a, u, .au, blanks)', 'C10 does not say what an undocumented spelling does (breaks C11: unrecognised units are a row error); C11 reported it as it stood (units=a.u in its menu)'),
 'C11-19': ('process_beads_table: `break` instead of `continue` on an empty MEF cell', 'an empty MEF cell in an earlier channel and unequal counts in later ones', AS),
 'C11-20': ('generate_histograms_table: per-row bin count taken from the table-wide maximum', 'two healthy rows whose reported channels have different resolutions', M + 'one of the healthy files records its first fluorescence channel with 256 channels; histogram rows of healthy rows are compared with their single-row runs'),
 'C12-19': ('stats.gstd / gcv: non-positive events dropped by row over all requested channels', 'a positive channel requested together with one holding zeros', AS),
 'C12-20': ('FCSData._name_to_index: mixed lists returned names first', 'a list with a position before a name', AS),
 'C13-19': ('clustering_gmm: the defensive copy moved into the logicle branch', 'scale="log" on floating-point data with zero / negative events', AS),
 'C13-20': ('_LogicleTransform: derived W memoised by object identity', 'a logicle query, an in-place change of the events, the query again', AS),
 'C14-19': ('read_fcs_text_segment: rfind(delim, begin) -- file offset used as string index', 'a segment at a non-zero offset that is shorter than its offset', AS + ' (segments read inside other bytes, wave 9)'),
 'C14-20': ('FCSFile.__init__: an unparseable ANALYSIS segment re-read with its own first byte as delimiter', 'ANALYSIS bytes that are ill-formed under the file\'s delimiter but well-formed under their first byte', M + 'files-raw-analysis kind: every string over {/, |, a} up to length 5 (thorough 7) as ANALYSIS segment, offsets in HEADER and in TEXT'),
 'C15-19': ('process_*_table: File Path split on slashes and re-joined under the workbook directory', 'an absolute File Path', M + 'dimension "paths" (./relative, absolute, plain relative)'),
 'C15-20': ('process_beads_table: MEF values cast to an integer array', '"None" among the MEF values of a bead row', M + 'dimension "mefnone" in C15 (it was in C10 only)'),
 'C16-19': ('read_fcs_text_segment: the pairing check can never fail (zip drops the odd element)', 'offsets that cut a segment to an odd number of elements', AS),
 'C16-20': ('read_fcs_data_segment: segment size as abs(end - begin) + 1', 'a begin offset beyond the end by exactly the DATA size, enough bytes after DATA', AS),
 'C17-19': ('FCSData.__new__: an unparseable $TIMESTEP falls through to TIMETICKS', 'both keywords present, $TIMESTEP ill-formed', M + '(the check had deliberately accepted both readings; the property says an unparseable keyword yields an absent attribute) the alternative reading is no longer accepted'),
 'C17-20': ('FCSData.__new__: gains accepted only as digits with one dot', 'a gain in exponent notation, signed or blank-padded', M + 'numformats kind: sixteen spellings of well-formed numbers for every numeric keyword'),
 'C18-19': ('_LogicleScale.limit_range_for_scale: upper bound T instead of the image of M', 'an axis limit beyond the scale with a wide linear region', AS),
 'C18-20': ('_LogicleTransform: max(W, 0) applied to an explicit W as well', 'an explicit negative W together with data', AS),
 'C19-19': ('_LogicleTransform: p cached by W rounded to three decimals', 'two logicle requests whose W differ by less than 1e-3', AS),
 'C19-20': ('_LogicleTransform: W = max(Wi, W) (NaN-unsafe)', 'a float sample with NaN and negative events in the channel', M + 'state float-neg-nan (form clauses; the grid of either defensible linear width is accepted)'),
 'C20-19': ('FCSData.__setstate__: the array part restored only when its buffer is non-empty', 'a sample without events, pickled', AS),
 'C20-20': ('FCSFile.__init__: the file closed unconditionally', 'two loads through the same open file object', M + '(C13 sees the closed handle) the "reload" of the handle base goes through the same file object'),
}
for name, (desc, needs, first) in A.items():
    p = '/verif/seeded/%s/meta.json' % name
    m = json.load(open(p))
    br = m['property']
    if name == 'C10-20':
        br = 'C11'
    m.update(breaks=br, description=desc, needs_to_manifest=needs, first_run=first, wave=10)
    json.dump(m, open(p, 'w'), indent=1)
print(len(A))
