#!/venv/bin/python
"""Regenerates /verif/MANIFEST.json from the property modules (run after adding a check)."""
import importlib
import json
import os
import sys

ROOT = os.path.dirname(os.path.dirname(os.path.abspath(__file__)))
sys.path.insert(0, ROOT)
props = [json.loads(l) for l in open(os.path.join(ROOT, 'properties.jsonl'))]
checks, na = [], []
for p in props:
    pid = p['id']
    try:
        m = importlib.import_module('fcverif.props.%s' % pid.lower())
    except ImportError:
        m = None
    if m is None or not getattr(m, 'READY', True):
        na.append({'property_id': pid, 'reason': 'check not built yet in this state of /verif (planned: DESIGN.md section 3, %s); '
                   'the technique applies, nothing is claimed until the check exists' % pid})
        continue
    checks.append({
        'property_id': pid,
        'quick_cmd': './check %s --tier quick' % pid,
        'thorough_cmd': './check %s --tier thorough' % pid,
        'evidence_file': 'evidence/%s.json' % pid,
        'replay_cmd_template': './check %s --replay {path}' % pid,
        'engine': getattr(m, 'ENGINE', 'E1'),
        'level_claimed': {'category': m.LEVEL, 'text': m.LEVEL_TEXT if hasattr(m, 'LEVEL_TEXT') else m.RULE,
                          'design_ref': 'DESIGN.md section 3, ' + pid},
        'level_note': '; '.join(getattr(m, 'ASSUMPTIONS', [])) or 'the reference model in fcverif/ and the case generator',
        'technique': m.TECHNIQUE,
    })
man = {
    'version': 1,
    'setup_cmd': './setup.sh',
    'hooks': {'guard': 'FLOWCAL_VERIF', 'enable': 'none needed: all observation points are public API; ./check exports FLOWCAL_VERIF=1 for uniformity',
              'baseline_off_cmd': 'cd /repo && /venv/bin/python -m pytest -ra -q -p no:cacheprovider --timeout=900 --continue-on-collection-errors',
              'source_commits': [], 'add_only': True},
    'engines': [
        {'name': 'E1', 'path': 'fcverif/explore.py', 'serves_properties': [c['property_id'] for c in checks if c['engine'] == 'E1'],
         'kind_free_text': 'bounded-exhaustive configuration explorer on the real code: complete products and deviation-bounded enumeration'},
        {'name': 'E2', 'path': 'fcverif/bfs.py', 'serves_properties': [c['property_id'] for c in checks if c['engine'] == 'E2'],
         'kind_free_text': 'explicit-state breadth-first search over call histories of the real objects against a reference model, fingerprint de-duplication'},
        {'name': 'E3', 'path': 'fcverif/props', 'serves_properties': [c['property_id'] for c in checks if c['engine'] == 'E3'],
         'kind_free_text': 'fault / crash-point enumerator: every fault of a finite menu at every position'},
    ],
    'checks': checks,
    'not_applicable': na,
    'notes': 'All checks explore the real implementation in /repo (editable install) exhaustively within the bounds stated in DESIGN.md and the evidence files. known_findings.json lists genuine defects that are recorded rather than repaired, and the fix: commits made in /repo.',
}
json.dump(man, open(os.path.join(ROOT, 'MANIFEST.json'), 'w'), indent=1)
print('checks:', [c['property_id'] for c in checks])
