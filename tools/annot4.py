import json, os
A = {
 'C01-7': ('FCSFile.__init__: $PnB widths collected by sorting the TEXT keys (lexicographic: $P10B before $P2B) instead of p = 1..$PAR', 'an integer file with >= 10 parameters whose widths differ between parameters', 'missed (at most 5 parameters); many-parameter layouts (D = 9..13, thorough up to 111, rotating widths and range kinds) added'),
 'C01-8': ('FCSFile.__init__: DATA offsets accepted only if 0 < begin < end', 'a file with no events or a one-byte DATA segment', 'reported by the check as it stood'),
 'C02-7': ('clustering_gmm: regularisation of the initial covariances only in the multi-channel branch', 'one clustering channel and a subpopulation sitting entirely on the detector limit', 'reported by the check as it stood'),
 'C02-8': ('get_transform_fxn: mef_values sorted along each channel (NaN moved to the end)', 'an unknown (None/NaN) manufacturer value at a first or middle position', 'reported by the check as it stood'),
 'C03-7': ('to_rfi: astype(float64, copy=False): a double-precision input is converted in place', 'a float64 input (array or already converted sample) reused as the starting point of a second conversion', 'missed (every intermediate object was used once); conversion lattice added: every state object is kept and reused for all successors, all paths to a state compared, inputs fingerprinted'),
 'C03-8': ('to_rfi: channel indices sorted/de-duplicated while the per-channel settings stay in the caller\'s order', 'channels listed in non-ascending order with explicit per-channel settings that differ', 'reported by the check as it stood'),
 'C04-7': ('FCSData.__getitem__: metadata slicing skipped for a channel slice without start and stop (ignores the step)', 'a channel slice with only a step (::2, ::-1)', 'reported by the check as it stood'),
 'C04-8': ('FCSData.__getitem__: `None in key` instead of any(k is None ...)', 'a tuple key holding an ndarray together with Ellipsis or a one-element tuple', 'reported by the check as it stood'),
 'C05-7': ('density2d: empty bins removed from the density-sorted list before the cumulative cut', 'sigma > 0, sparse data (empty bins inside the dense region), full_output=True', 'reported by the check as it stood'),
 'C05-8': ('density2d: smoothed histogram divided by the bin area', 'bins of unequal size (explicit edges, log / logicle bins)', 'reported by the check as it stood'),
 'C06-7': ('to_mef: length check only refuses too few curves', 'more curves than channels', 'reported by the check as it stood'),
 'C06-8': ('to_mef: early return for a sample without events, before the coverage check', 'a sample with zero events and a request with a channel that has no curve', 'missed (refusals were only exercised on the full sample); degenerate samples (no events by slice / mask, one, two events; arrays) x all curve subsets x all requests added'),
 'C07-7': ('to_rfi: range list rebuilt by comparing positions; a negative channel index never matches', 'a channel given as a negative position', 'missed (positions and names only); channel spellings now include positions counted from the last channel and mixed forms, for to_rfi, to_mef and transform'),
 'C07-8': ('gate.high_low: default limits looked up with the enumeration index instead of the channel', 'a gate channel list that is not the leading channels, after a partial conversion', 'reported by the check as it stood'),
 'C08-7': ('gate.ellipse: contour rotated with R.T (opposite direction)', 'full_output=True, theta not a multiple of pi/2, a != b', 'reported by the check as it stood'),
 'C08-8': ('gate.high_low: data_ch[:, np.newaxis] loses the FCSData metadata for a scalar channel', 'a loaded sample, one scalar channel, an omitted threshold, events at the limit', 'reported by the check as it stood'),
 'C10-7': ('generate_histograms_table: bin grid cached per (channel, scale, nbins) across rows', 'histogram sheet on and two rows reporting one channel in units with different edges', 'reported by the check as it stood'),
 'C10-8': ('process_samples_table: Units column looked up by the position in the instrument channel list', 'Units columns not aligned with the instrument\'s channel list (several instruments, or a gap)', 'reported by the check as it stood'),
 'C11-7': ("process_samples_table: units.lower() in ('a.u.' 'au') -- a missing comma turns membership into a substring test", "an unrecognised unit that is a substring of 'a.u.au' (a.u, A, u., a blank cell)", "missed (the only unrecognised unit was 'xyz'); the fault now has a value menu of 21 near misses, each alone and next to healthy rows; this also exposed a genuine defect (numeric Units cell aborts the table, fixed in 424375d)"),
 'C11-8': ('gate.density2d: the fraction check applied to the rounded event count', 'a gate fraction barely below 0 (in (-1/N, 0))', 'missed (fractions -0.1 and 1.5 only); value menu of 9 fractions just outside [0, 1] for sample and bead rows'),
 'C12-7': ('stats.gcv: logarithm taken in place when the float64 conversion returns the caller\'s own array', 'a plain float64 array that owns its memory, channels=None, a second statistic afterwards', 'reported by the check as it stood'),
 'C12-8': ('FCSData.__getitem__: a position list judged "adjacent" (distinct, last-first+1 == len) replaced by a slice', 'a list of >= 3 channels whose last is first+len-1 but which is not ascending, e.g. [0, 3, 2]', 'missed (at most 2 channels); wide samples (5 channels) with every ordered channel list of length 1..5 x 4 spellings x 6 containers added'),
 'C13-7': ('gate.start_end: without full_output the gated sample is a slice view of the input', 'default full_output and a later in-place change of the result', 'reported by the check as it stood'),
 'C13-8': ('FCSData.hist_bins: logicle transform cached on the sample keyed by channel only', 'two logicle queries for one channel on one object with different T/M/W', 'reported by the check as it stood'),
 'C14-7': ('read_fcs_text_segment: decoded segment rstrip(\' \')-ed before the last delimiter is located', 'a segment whose delimiter is the space character', 'reported by the check as it stood'),
 'C14-8': ('FCSFile.__init__: supplemental TEXT read only if it begins after the primary TEXT ends', 'a 3.x file whose supplemental TEXT segment precedes the primary one', 'missed (supplemental TEXT always after the primary one); fcsgen places the four segments in any order and C14 enumerates all 24 (3.x) / 6 (2.0) orders'),
 'C15-7': ('mef.get_transform_fxn: figure names built by string concatenation with plot_filename', 'plot=True and a Beads row whose ID is a number', 'missed (text identifiers only); numeric row / instrument identifiers added as a workbook dimension'),
 'C15-8': ('excel_ui.write_workbook: column width from built-in max() over the cells', 'a table with columns but no rows (e.g. header-only Beads sheet)', 'reported by the check as it stood'),
 'C16-7': ('read_fcs_data_segment (uniform widths): size check counts items with floor division', 'DATA begin offset a few bytes too small (16/32/64-bit uniform integer file)', 'reported by the check as it stood'),
 'C16-8': ('read_fcs_data_segment (mixed widths): memmap replaced by an unchecked readinto (short read zero-filled)', 'a mixed-width integer file cut inside DATA', 'reported by the check as it stood'),
 'C17-7': ('FCSData._parse_time_string: bare except narrowed to except ValueError', '$BTIM/$ETIM hh:mm:ss:tt with a non-finite tt (1e999, inf): OverflowError escapes loading', 'missed (ill-formed menu had no non-finite field); 8 further ill-formed times added'),
 'C17-8': ('FCSData.acquisition_time: microseconds of end - start dropped', 'duration from $BTIM/$ETIM with fractional seconds', 'reported by the check as it stood'),
 'C18-7': ('_LogicleTransform.__init__: `W = W or 0.5` (and T, M likewise)', 'explicit parameters without data with W exactly 0', 'reported by the check as it stood'),
 'C18-8': ('_LogicleTransform.__init__: initial estimate of p accepted when |W_f(p0) - W| < 1e-2', '0 < W < 0.02 or W > 5.4', 'reported by the check as it stood'),
 'C19-7': ('FCSData.hist_bins: unknown scale only refused when scale is a single string', 'a per-channel scale list with an unknown entry', 'reported by the check as it stood'),
 'C19-8': ('_LogicleTransform.__init__: the 4.5-decade floor applied to an explicit M as well', 'hist_bins(scale=\'logicle\', M=<less than 4.5>)', 'missed (explicit M only >= 4.5); overrides with M = 2, 3, 4, 4.5, 9 added (grid identity)'),
 'C20-7': ('FCSFile.__eq__: infile compared with `is`', 'the same file loaded through two equal but distinct path strings', 'missed (the harness reused one path string object); the path is now spelled anew for every load'),
 'C20-8': ('FCSData.__array_finalize__: attributes copied only when not None', 'a file without $TIMESTEP/$BTIM/$ETIM/$DATE, then any copy, view or slice', 'harness error at first (the fingerprint itself raised AttributeError); the fingerprint now records accessors that raise, and a state whose accessors stop working is a violation'),
}
for name, (desc, needs, first) in A.items():
    p = '/verif/seeded/%s/meta.json' % name
    if not os.path.exists(p):
        print('missing', name); continue
    m = json.load(open(p))
    m.update(breaks=m['property'], description=desc, needs_to_manifest=needs, first_run=first, wave=4)
    json.dump(m, open(p, 'w'), indent=1)
print('ok')
A2 = {
 'C09-7': ('fit_beads_autofluorescence: bead model output clamped at zero', 'fitted autofluorescence > 0 and the bead model evaluated below the blank bead\'s RFI', 'reported by the check as it stood'),
 'C09-8': ('fit_beads_autofluorescence: minimum population count off by one (two populations accepted)', 'exactly two bead populations', 'reported by the check as it stood'),
}
for name, (desc, needs, first) in A2.items():
    p = '/verif/seeded/%s/meta.json' % name
    m = json.load(open(p))
    m.update(breaks=m['property'], description=desc, needs_to_manifest=needs, first_run=first, wave=4)
    json.dump(m, open(p, 'w'), indent=1)
