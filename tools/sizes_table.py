#!/venv/bin/python
"""tools/sizes_table.py <log of tools/run_all.sh thorough> : rewrites the table of DESIGN.md section 9.6 from the summary lines of that log."""
import re, sys
UNIT = {'C01': 'files', 'C02': 'calibrations / selections', 'C03': 'conversions', 'C04': 'transitions', 'C05': 'gate calls', 'C06': 'conversions',
        'C07': 'conversions', 'C08': 'gate calls', 'C09': 'fits', 'C10': 'sample rows', 'C11': 'tables', 'C12': 'statistic calls', 'C13': 'histories',
        'C14': 'segments / files', 'C15': 'runs / round trips', 'C16': 'damaged files', 'C17': 'files', 'C18': 'triples / derivations', 'C19': 'bin requests',
        'C20': 'clone transitions'}
rows = {}
for line in open(sys.argv[1]):
    m = re.match(r'^(C\d\d) tier=(\w+) seed=\d+ cases=(\d+) evaluations=(\d+) .* wall=([\d.]+)s', line)
    if m:
        rows[m.group(1)] = (int(m.group(3)), int(m.group(4)), float(m.group(5)))
ids = sorted(rows)
half = (len(ids) + 1) // 2
out = ['| id | evaluations | wall | id | evaluations | wall |', '|---|---|---|---|---|---|']
fmt = lambda i: '| %s | %s %s (%s case descriptors) | %s |' % (i, format(rows[i][1], ',').replace(',', ' '), UNIT[i], format(rows[i][0], ',').replace(',', ' '),
                                                                ('%d s' % rows[i][2]) if rows[i][2] < 600 else ('%d min' % round(rows[i][2] / 60.0)))
for a, b in zip(ids[:half], ids[half:] + [None] * (half - len(ids[half:]))):
    out.append(fmt(a) + (fmt(b)[1:] if b else '  |  |  |'))
s = open('/verif/DESIGN.md').read()
a = s.index('| id | evaluations | wall | id | evaluations | wall |')
b = s.index('\n\n', a)
s = s[:a] + '\n'.join(out) + s[b:]
open('/verif/DESIGN.md', 'w').write(s)
print('\n'.join(out))
