import json, os
AS = 'reported by the check as it stood'
M = 'missed; '
A = {
 'C01-21': ('read_fcs_data_segment: np.memmap given the file\'s name instead of the open file object', 'loading through an open file object whose path has since been unlinked, replaced or become unreachable', M + 'ways of loading "handle-unlinked" and "handle-replaced"'),
 'C01-22': ('read_fcs_data_segment: masking skipped unless every parameter\'s range is below its word size', 'one parameter whose $PnR fills its word next to one with unused high bits set', AS),
 'C02-21': ('get_transform_fxn: np.asarray of the caller\'s MEF array, NaN written into the values of excluded populations', 'the same float ndarray of MEF values used for a second calibration', AS),
 'C02-22': ('fit_beads_autofluorescence: the non-negativity bound placed on the intercept instead of the autofluorescence', 'a bead law with a negative intercept', M + '(outside the stated interval [1, 5] of intercepts) intercept -1.2 in the C02 lattice and -2 / -0.6 in the C09 lattice; C09 as it stood reported a tiny negative fitted autofluorescence'),
 'C03-21': ('FCSFile.__init__: supplemental keywords merged into a dictionary that is thrown away', 'an amplifier keyword ($PnG) recorded only in the supplemental TEXT segment', M + '(C01\'s supplemental-merge clause reports it) gainfile cases with the gains in the supplemental segment'),
 'C03-22': ('to_rfi: a shorter amplification_type list accepted (zip truncates)', 'fewer amplification types than channels', AS),
 'C04-21': ('FCSData.__getitem__: boolean event mask and channel list indexed in two steps (outer selection)', 'a boolean NumPy mask with a channel list', AS),
 'C04-22': ('FCSData.__setitem__: channel list passed through np.unique', 'an array assigned through a channel list not in ascending column order', AS),
 'C05-21': ('density2d: edges cast to the events\' float type after counting', 'float32 events equal to the float32 rounding of an edge that float32 cannot represent', M + 'float32 kind: events on and one unit in the last place next to such edges'),
 'C05-22': ('density2d: densities rounded to ten decimals before sorting', 'a large sample on a fine grid with smoothing', AS),
 'C06-21': ('to_mef: curves applied in blocks of 2**16 events, the remainder dropped', 'more than 65536 events, not a multiple of 65536', M + 'big kind (65537 and 150001 events; thorough seven counts)'),
 'C06-22': ('to_mef: requested names the sample does not have are dropped from the request', 'a request naming a channel the sample lacks', M + 'requests with unknown names, alone and next to covered channels'),
 'C07-21': ('transform(): limits pushed through the law once, for the first converted channel', 'channels with different ranges converted in one call', AS),
 'C07-22': ('to_mef: converted limits memoised by channel and input limits, not by curve', 'two calibrations of one channel in one process', AS),
 'C08-21': ('gate.ellipse: centre kept in the caller\'s dtype (np.asarray)', 'unsigned data and an unsigned NumPy centre', AS + ' (this is the defect repaired by 1450ef4, re-introduced)'),
 'C08-22': ('FCSData._name_to_index: abs(position) < number of channels', 'the position -D', AS),
 'C09-21': ('fit_beads_autofluorescence: warm start from the last solution for the same MEF ladder (module-level)', 'two fits of one ladder with different laws in one process', AS),
 'C09-22': ('fit_beads_autofluorescence: builtin abs() in the standard curve', 'the curve evaluated on a plain list', AS),
 'C10-21': ('process_samples_table: scatter channels converted only when log-amplified', 'a linear scatter channel with a gain other than 1', AS),
 'C10-22': ('process_samples_table: RFI conversion of a MEF channel nested under "beads_table is not None"', 'MEF units and no beads_table argument', M + '(C11 has that pass) every C10 experiment is processed a second time without the optional beads table'),
 'C11-19': ('process_beads_table: `break` instead of `continue` on an empty MEF cell', 'an empty MEF cell in an earlier channel and unequal counts in later ones', AS),
 'C11-21': ('process_samples_table: a row without any units skipped with `continue` (never stored)', 'a healthy row whose units cells are all empty', M + 'healthy rows "ok:nounits" in six table shapes'),
 'C11-22': ('process_beads_table: the empty-table early return ignores full_output', 'an empty beads table and full_output=True', AS),
 'C12-21': ('stats.rcv: iqr(data, channels) / median(data, channels) (the channel argument iterated twice)', 'channels given as a one-shot iterable', M + 'one-shot iterables (generator, iter, map) among the channel forms of the wide samples'),
 'C12-22': ('stats.cv: nanstd / nanmean', 'floating-point data with NaN events', M + 'nan kind: four float containers, NaN in one to three channels, mean / SD / CV NaN there and by definition elsewhere'),
 'C13-21': ('FCSData.__array_wrap__: result given the parent\'s own metadata objects', 'a sample produced by arithmetic or a NumPy function, then a change of its metadata', M + 'recipes d * 2.0, d + 1, np.sqrt, np.log10, np.maximum, d - d'),
 'C13-22': ('plot.density_and_hist: the default title written into the (falsy, hence uncopied) empty parameter dictionary', 'density_params omitted or given as {}', M + 'recipe with empty parameter dictionaries'),
 'C14-21': ('read_fcs_header_segment: `if begin: buf.seek(begin)`', 'an open file object that was read from before', M + '(C01 reports it) every file of the C14 file kinds is also read through a peeked file object, twice'),
 'C14-22': ('read_fcs_text_segment: a dangling last entry made of blanks / NULs dropped as padding', 'an unpairable segment whose last string is blank-only', M + 'strings-alpha kinds: exhaustive strings over {delimiter, blank, letter, NUL / line ends} up to length 7 (thorough 9)'),
 'C15-21': ('write_workbook: to_excel(index=True) (repeated outer labels of a hierarchical index are merged)', 'the Histograms sheet read cell by cell', M + '(the check had filled empty identifier cells from the row above) every Histograms row must carry its own identifiers'),
 'C15-22': ('process_samples_table: .format() applied to the whole figure path', 'a workbook directory whose name contains braces', M + 'dimension "dirname" (braces, percent signs)'),
 'C16-21': ('read_fcs_data_segment: event count recomputed from the extent when $TOT announces too many', 'DATA offsets changed by a whole number of events', AS),
 'C16-22': ('read_fcs_data_segment (floats): `any` instead of `all` in the width check', 'one $PnB of a float file damaged', M + 'a damaged count or width that still loads must leave a file the reference reader accepts (equal events alone are not enough); this clause also exposed the defect repaired by 260c8e4'),
 'C17-21': ('_parse_date_string: two-digit years before 2000 moved forward a century', '$DATE dd-mmm-yy with yy in 69..99', AS),
 'C17-22': ('acquisition_time: max - min of the time channel instead of last - first', 'time stamps that are not monotonic', AS),
 'C18-21': ('_LogicleTransform.transform_non_affine: s = np.asarray(s)', 'W given as an integer >= 1 (the library evaluates the transform at the integer display value 0 itself)', M + 'integer-typed triples (inttypes kind); they exposed that NumPy-integer triples already failed on the unchanged tree'),
 'C18-22': ('_LogicleScale.get_transform: inverse built with 100 instead of 1000 interpolation points', 'the inverse obtained through the registered axis scale, M >= 3.5', M + 'every lattice triple also checks the inverse the scale object hands to an axis'),
 'C19-21': ('_LogicleTransform: the default of M computed only when T is derived', 'an explicit T above 2**18 without M', M + 'T-only overrides above 2**18 in C19 and in C18\'s derivation clause'),
 'C19-22': ('_LogicleTransform: W capped at M / 2', 'an explicit W above M / 2, or a most negative event beyond T', AS),
 'C20-21': ('FCSFile.__eq__: keywords compared one way (every keyword of self is in other)', 'two files with identical HEADER and events, one holding one more keyword (in the other\'s padding), the smaller asked first', M + 'file pairs with a keyword present in one and blank padding in the other, asked both ways; every file-equality edit is now asked both ways'),
 'C20-22': ('read_fcs_text_segment: keyword values stripped of surrounding blanks', 'files differing only in blanks around a keyword value', M + 'keyword edits on FCS 2.0 files (no offsets among the keywords, so the edited keyword is the only difference)'),
}
for name, (desc, needs, first) in A.items():
    p = '/verif/seeded/%s/meta.json' % name
    m = json.load(open(p))
    m.update(breaks=m['property'], description=desc, needs_to_manifest=needs, first_run=first, wave=11)
    json.dump(m, open(p, 'w'), indent=1)
print(len(A))
