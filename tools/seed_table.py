#!/venv/bin/python
"""Regenerates the seeded-change table of DESIGN.md (between the SEEDED-TABLE markers) from seeded/*/meta.json."""
import json, os, re
rows = []
for name in sorted(os.listdir('/verif/seeded')):
    p = '/verif/seeded/%s/meta.json' % name
    if not os.path.exists(p):
        continue
    m = json.load(open(p))
    det = ', '.join(sorted(m.get('detected_by', []))) or '**missed**'
    first = m.get('first_run', '')
    mark = 'after strengthening' if first.startswith('missed') else 'as first written'
    if m.get('neutralised_by'):
        det, mark = 'none any more', 'no longer a violation: ' + m['neutralised_by']
    rows.append('| %s | %s | %s | %s | %s (%s) |' % (name, m.get('breaks', m.get('property')), m.get('description', '').replace('|', '/'), m.get('needs_to_manifest', '').replace('|', '/'), det, mark))
table = ['| seed | breaks | change | needs, in order to manifest | reported by |', '|---|---|---|---|---|'] + rows
s = open('/verif/DESIGN.md').read()
a, b = '<!-- SEEDED-TABLE-BEGIN -->', '<!-- SEEDED-TABLE-END -->'
if a in s:
    s = s[:s.index(a) + len(a)] + '\n' + '\n'.join(table) + '\n' + s[s.index(b):]
    open('/verif/DESIGN.md', 'w').write(s)
print(len(rows), 'seeds;', sum(1 for r in rows if 'missed' in r.split('|')[-2] and '**' in r), 'currently missed')
