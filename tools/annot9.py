import json, os
AS = 'reported by the check as it stood'
M = 'missed; '
A = {
 'C01-17': ('FCSFile.__init__: DATA offsets refused when DATA begins before the end of TEXT', 'a file whose DATA segment precedes its TEXT segment (HEADER offsets)', AS + ' (segment orders of wave 7)'),
 'C01-18': ('read_fcs_data_segment: byte assembly in blocks of 2**16 events with an overlapping first row', 'mixed / 24-bit widths and more than 65536 events', M + 'files of 65537 and 131075 events (thorough: ten counts around 10^4, 2^15..2^20, 10^5, 10^6) on the byte-assembling, uniform and float paths'),
 'C02-17': ('FCSData.__array_finalize__: range list copied shallowly; get_transform_fxn(plot=True) edits the limits it reads', 'the same float bead sample calibrated twice, the first time with figures, a dim population near the lower limit', M + 'B-plot cases: plot=True then plot=False on the same object vs a fresh load, dimmest population stepped through 2..5 (thorough: 30 steps); the sample must also come back unchanged'),
 'C02-18': ('selection_std: n_std_low and n_std_high swapped in the final mask', 'selection parameters with n_std_low != n_std_high', M + 'thresholds placed 3 standard deviations from a population, each count varied with the other threshold far away'),
 'C03-17': ('FCSData.__new__: a non-numeric $PnG skipped instead of recorded as None (gain tuple one short)', 'a non-numeric $PnG before linear channels with other gains', M + 'gainfile kind: complete product of {number, absent, not a number} over four linear channels around a log channel, with and without CytekPnnG'),
 'C03-18': ('to_rfi: a partially given resolution list replaced as a whole by the sample\'s resolutions', 'resolution=[None, r] with r != $PnR, two log channels', AS),
 'C04-17': ('FCSData.__array_finalize__: attributes copied only when truthy', 'a selection of no channels, indexed again', M + 'the chain exploration now expands states without events or without channels (own alphabet) and the reduced alphabet contains empty selections'),
 'C04-18': ('FCSData.__setitem__: names resolved only for list / int / str keys', 'assignment through a tuple of channel names', AS),
 'C05-17': ('gate.density2d: all-False bin mask of the n == 0 path allocated transposed', 'gate_fraction 0 on a non-square grid, full output', AS),
 'C05-18': ('gate.density2d: all bins accepted => every event kept', 'gate_fraction 1 with events outside the grid', AS),
 'C06-17': ('get_transform_fxn: fitted curves cached by the selected MEF values', 'two channels with identical MEF value lists in one calibration', AS),
 'C06-18': ('to_mef: `channels == None`', 'channels as a NumPy array of two or more names', M + 'tuples and NumPy arrays of names (and of positions for plain arrays) among the requests'),
 'C07-17': ('to_mef: range update guarded by chi < len(range) - 1', 'the converted channel is the last column of the sample', AS),
 'C07-18': ('excel_ui.process_samples_table: a.u. branch copies the converted events back, the range stays raw', 'units spelled a.u. / au in the Excel workflow', M + '(C10 reported it: the returned sample differs from the documented steps) workflow kind in C07: limits of the samples the Excel workflow returns, every pair of unit spellings'),
 'C08-17': ('gate.high_low: defaulted thresholds from range(channels) wrapped once more for non-lists', 'channels as a tuple / array and a threshold omitted', AS),
 'C08-18': ('gate.ellipse: outline memoised by (a, b, theta) and shifted in place', 'two calls with the same axes and angle', AS),
 'C09-17': ('fit_beads_autofluorescence: np.asarray keeps float32 and the objective is evaluated in single precision', 'float32 bead statistics and an autofluorescence near the largest the ladder admits', M + 'float32 forms of every lattice fit, the span now includes the blank bead, the largest admissible autofluorescence per ladder, and the two ladders of the shipped examples'),
 'C09-18': ('fit_beads_autofluorescence: upper bound on the autofluorescence at the second MEF value', 'autofluorescence above the dimmest stained bead', AS),
 'C10-17': ('process_samples_table: units column looked up by the canonical header', 'units headers with irregular blanks', M + 'header style as a dimension of C10 (it was in C15 only)'),
 'C10-18': ('add_samples_stats: `acquisition_time or nan`', 'a gated sample whose acquisition time is exactly 0 s', M + 'clock dimension: flat time channel, $BTIM = $ETIM, $BTIM/$ETIM 100 s apart, no time information'),
 'C11-17': ('process_beads_table: clustering channels put into the shared default kwargs dict with setdefault', 'bead rows with different clustering channels (or a second table in the process)', M + '(C10 and C15 reported it) bead files in which one channel does not resolve the populations, rows clustered on the other one, first in their worker; healthy rows are also compared with the stated bead values'),
 'C11-18': ('process_samples_table: settings of the beads compared for the first MEF channel of a row only', 'a row asking MEF in two channels whose second channel was acquired with another voltage / amplifier', M + 'faults voltage-differs-second and amp-differs-second in five table shapes'),
 'C12-17': ('FCSData._name_to_index: int() tried before the name lookup', 'channel names that are strings of digits', M + 'naming schemes "digits" and "filters" (blanks, commas, slashes, "-1") for the wide samples, single channels also as scalars'),
 'C12-18': ('FCSData.__getitem__: stepped channel slices normalised without their step before the metadata is sliced', 'a sub-sample taken with a stepped channel slice, statistic by name', AS),
 'C13-17': ('read_fcs_data_segment: np.asarray(param_bit_widths) //= 8', 'widths handed over as a NumPy integer array, mixed widths', M + 'recipes with widths / ranges as int64, int32 arrays and tuples, uniform and mixed'),
 'C13-18': ('stats.iqr / rcv: overwrite_input=True for any iterable channels argument (a string is one)', 'iqr / rcv of a loaded sample with the channel given as a name', AS),
 'C14-17': ('FCSFile.__init__: the delimiter overwritten by the supplemental read (None when that area holds no keyword)', 'a supplemental window without keywords (blanks or no byte) and an ANALYSIS segment', M + 'files-empty-stext kind (blank-filled and zero-length windows, five delimiters, ANALYSIS offsets in HEADER / TEXT)'),
 'C14-18': ('read_fcs_text_segment: one byte beyond the segment read and appended when it is the delimiter', 'a segment not ending with the delimiter followed by a delimiter byte', M + 'every enumerated string is also read embedded between other bytes (a delimiter next to it on both sides); the outcome must be the same'),
 'C15-17': ('process_beads_table: plot settings put into the shared default kwargs dict', 'two analyses in one process with different plot settings / directories', M + 'run-sequence kind (plots off-on, on-off-on, on-on), first in its worker'),
 'C15-18': ('process_samples_table: figure named "<id>" (matplotlib takes the format from the text after the last period)', 'plot=True and a sample identifier containing a period', M + 'identifier scheme "dotted" (wt.rep2, 2024.01.15_A, "strain 3.b.pdf", "S1.")'),
 'C16-17': ('read_fcs_data_segment (byte-assembling path): size comparison with np.isclose', 'DATA of 100 kB or more and an offset wrong by a few bytes', M + 'five large files (120..480 kB of DATA) with shifts of +-2..12 bytes on the DATA offsets, cuts near every segment boundary'),
 'C16-18': ('read_fcs_data_segment (floats): only a too large declared segment refused', 'float file with bytes after DATA and a larger $TOT / later begin offset', AS),
 'C17-17': ('FCSData.acquisition_time: the date-less start / end times overwritten by datetimes', 'no usable $DATE, start / end read after the duration', M + 'every attribute read again after acquisition_time, and on a second load whose duration is read first'),
 'C17-18': ('FCSData.__new__: Cytek gain fallback conditioned on the last channel\'s voltage', 'FlowJo files whose last channel has a voltage, or lacks one while $PnG is present', AS),
 'C18-17': ('_LogicleTransform: derived W clamped to M/2', 'a most negative event larger in magnitude than T', AS),
 'C18-18': ('_LogicleTransform: derivation of M nested under that of T', 'data with an explicit T and no M', AS),
 'C19-17': ('hist_bins: `scale in (\'logicle\')` (substring test)', 'an unknown scale name that is a fragment of "logicle"', AS + ' (the empty string is in the menu)'),
 'C19-18': ('hist_bins (log): lower limit replaced whenever it is below 1', 'a range starting strictly between 0 and 1', M + 'log amplifiers with offsets 0.01 / 0.5 / 0.1 and MEF curves mapping the lowest value below 1 as states'),
 'C20-17': ('read_fcs_text_segment: parsed segments cached by (file name, offsets)', 'a path loaded, rewritten with other content of the same layout, loaded again', M + '(ended as a harness error: the stale keywords made a later generated file unreadable) loads of rewritten files now report a violation'),
 'C20-18': ('FCSFile: class-level analysis dictionary shared by all files without ANALYSIS', 'an annotation added to a freshly loaded sample\'s analysis, then another load', M + '"reload" as a clone operation (two loads equal and independent, both ways, second reload) and a new annotation key on every mutation'),
}
for name, (desc, needs, first) in A.items():
    p = '/verif/seeded/%s/meta.json' % name
    m = json.load(open(p))
    br = m['property']
    if name == 'C07-18':
        br = 'C10'
    m.update(breaks=br, description=desc, needs_to_manifest=needs, first_run=first, wave=9)
    json.dump(m, open(p, 'w'), indent=1)
print(len(A))
