import json, os
AS = 'reported by the check as it stood'
M = 'missed; '
A = {
 'C01-23': ('read_fcs_data_segment (floats): copy-on-write memory map returned without copying', 'a float file loaded by path, then overwritten in place with another acquisition of the same layout', M + 'way of loading "path-then-rewritten"'),
 'C01-24': ('FCSFile.__init__: $BYTEORD accepted by prefix "1,2" / suffix "2,1"', 'a mixed byte order such as 1,2,4,3 or 3,4,2,1', M + 'every permutation of four bytes other than the two supported ones, and spellings of other lengths, among the refusals'),
 'C02-23': ('get_transform_fxn: a flat MEF list is wrapped only when its first entry is a scalar (None is not)', 'one channel given as a plain name with a flat value list starting with None', AS),
 'C02-24': ('clustering_gmm: the mixture fitted on the first 5000 events only', 'more than 5000 events stored population after population', M + 'bead files of 6400 and 9600 events in sorted, reversed and interleaved order'),
 'C03-23': ('FCSData._name_to_index: names matched case-insensitively, first match wins', 'two channel names that differ only in letter case', M + 'case kind (FL1-H / FL1-h / fl1-H ... each with its own amplifier)'),
 'C03-24': ('to_rfi: the recorded gain consulted only when the sample\'s own $PnE is linear', 'amplification_type overridden to linear on a log channel that records $PnG, gain taken from the file', M + 'the log-amplified first channel of the base sample now records a gain'),
 'C04-23': ('FCSData._name_to_index: each distinct list entry resolved once (repeats collapse)', 'a channel list naming one channel twice with the same spelling', AS),
 'C04-24': ('FCSData.__getitem__: adjacent ascending positions turned into a slice (empty when it ends at -1)', 'a channel list such as [-2, -1]', AS),
 'C05-23': ('gate.density2d: sample-derived edges asked with the caller\'s channel spec on the two-column slice', 'FCSData, per-axis bin counts, channels as positions other than (0, 1)', AS),
 'C05-24': ('gate.density2d: contour fallback guard weakened to "at least four cells"', 'a 1 x k or k x 1 grid with k >= 4 and full output', M + 'single-bin-axis grids (1 x 4, 5 x 1, 1 x 6) in the quick tier as well'),
 'C06-23': ('to_mef: the channel of a curve looked up by the curve object', 'one curve object listed for two channels', M + 'shared-and-single kind: curve lists f g f / g g / f f f f'),
 'C06-24': ('to_mef: floating-point samples no longer promoted to double precision', 'events held as 32-bit floats', M + 'the same kind on float32 arrays and float32 samples: every value is the curve evaluated in double precision'),
 'C07-23': ('to_rfi: converted limits widened to cover the events', 'a range that is not a power of two (events above the limit exist)', M + 'events above the upper limit in every channel whose range is not a power of two'),
 'C07-24': ('gate.high_low: "nothing can be saturated" shortcut on the extremes over all channels', 'gated channels with different limits and no event at the widest ones', M + 'gate-partial clause: the gate on the events that reach neither the widest upper nor the smallest lower limit'),
 'C08-23': ('gate.high_low: scalar channels wrapped only when they are Python ints / strings', 'a plain array and the channel as a NumPy integer', M + 'NumPy-integer channels for plain arrays'),
 'C08-24': ('gate.ellipse: "two different channels" required', 'the same channel given twice', M + 'containers arr-same / fcs-same (both coordinates from one channel)'),
 'C09-23': ('fit_beads_autofluorescence: intercept un-normalised with the initial slope', 'an initial slope that differs from the fitted one (large autofluorescence), bright top bead', AS),
 'C09-24': ('fit_beads_autofluorescence: np.vectorize with an integer zero branch', 'the curve evaluated on an array whose first element is exactly 0', M + 'zero-first clause (arrays starting with 0.0, -0.0, 0)'),
 'C10-23': ('process_samples_table: density-gate bins taken from the untrimmed sample', 'float data with strongly negative scatter values among the discarded first / last events', M + 'dimension "headneg"'),
 'C10-24': ('process_beads_table: MEF values in sheet-column order, MEF channels in instrument order', 'MEF Values columns in another left-to-right order than the instrument\'s channel list', M + 'dimension "mefcols"'),
 'C11-23': ('process_samples_table: files opened after chdir(base_dir); the directory is not restored on the not-found path', 'a relative base_dir and a missing file followed by another row', M + 'tables processed with the folder given relative to the working directory'),
 'C11-24': ('process_samples_table: instrument looked up once, from the first row', 'rows of two instruments with different channel names', M + 'healthy rows of the second instrument ("ok:inst2") in five table shapes'),
 'C12-23': ('stats.median: hand-written selection with one partition index', 'an even number (ten and more) of 8-bit events', M + 'many kind: 10 / 11 / 64 / 500 / 501 events in five narrow containers, six streams'),
 'C12-24': ('FCSData.__getitem__: `key[1] != Ellipsis`', 'channels as a NumPy array of two and more names', M + 'NumPy arrays of names among the channel forms of the wide samples'),
 'C13-23': ('plot.density2d: lowest edge clamped in place for log axes (np.histogram2d hands back the caller\'s arrays)', 'log scale, default limits, edge arrays starting at or below zero', M + 'recipes with such edge arrays on log / linear-log / log-logicle axes'),
 'C13-24': ('plot.hist1d: one-channel slices written back into the caller\'s list', 'a list of multi-channel samples', AS),
 'C14-23': ('read_fcs_header_segment: the six offset fields read with split()', 'a HEADER offset of 10,000,000 and more', M + '(C01 has such offsets for DATA) files-bigoffsets kind: ANALYSIS / DATA just below and above the mark'),
 'C14-24': ('read_fcs_text_segment: the tolerated one-past-the-end offset no longer tolerated at the end of the file', 'a segment that is the last thing in the file, end offset one past its last byte', M + 'every enumerated string is also read with the end offset one past the buffer'),
 'C15-23': ('write_workbook: os.makedirs(os.path.dirname(filename)) (empty for a bare file name)', 'the output addressed by a bare file name', M + 'output paths "bare" and "bare-explicit" (started from inside the workbook\'s folder)'),
 'C15-24': ('process_samples_table: the None guard on the sample\'s detector voltage lost', 'a MEF row whose file does not record $PnV', M + 'dimension "samplevolt" in C15 (C10 had it)'),
 'C16-23': ('read_fcs_data_segment: in-memory buffers read with np.resize (a short read is tiled)', 'a truncated file handed over as io.BytesIO', M + 'every truncation is also loaded from an in-memory file object'),
 'C16-24': ('FCSFile.__init__: FCS 2.0 DATA offsets of 0 replaced by a guess (DATA follows TEXT)', 'FCS 2.0, a HEADER DATA offset damaged to 0, a gap between TEXT and DATA', M + '(two deviations apart in the quick lattice) FCS 2.0 layouts with padding in the quick tier'),
 'C17-23': ('acquisition_time: dt.seconds + microseconds instead of total_seconds()', '$ETIM earlier in the day than $BTIM', AS),
 'C17-24': ('acquisition_time cached on the object and copied to derived samples', 'the duration read on a sample, then on an event slice of it', M + 'derived-sample clause; it exposed the unsigned time difference repaired by 35dbb43'),
 'C18-23': ('_LogicleTransform: the range of the last sample (Ti) used in the derivation of W', 'a list of samples with different ranges whose last one is not the widest', AS),
 'C18-24': ('FCSData.__getitem__ (single channel): metadata taken with [k:k+1] (empty for -1)', 'channel=-1 on a sample with a known range', M + 'the derivation also asked with the channel counted from the last one'),
 'C19-23': ('to_mef: range update outside the "requested" test', 'curves known for several channels, a subset converted, bins of an unconverted one', M + '(C07 reports it) state mef-partial'),
 'C19-24': ('FCSData.__getitem__ (slice of channels): _resolution not sliced', 'a sub-sample taken with a channel slice from a file with different resolutions', M + '(C04 reports it) states sliced-tail and sliced-step'),
 'C20-23': ('FCSData: TEXT dictionary copied lazily at first access', 'the original\'s text edited after cloning, before the clone\'s text was read', M + 'unread-clone clause'),
 'C20-24': ('FCSData.__setstate__: consistency check that assumes a 1-D sample has one channel', 'the single-event record d[i] of a multi-channel sample, pickled', M + 'record clause (copy / deepcopy / view / pickle of d[1] in every state)'),
}
for name, (desc, needs, first) in A.items():
    p = '/verif/seeded/%s/meta.json' % name
    m = json.load(open(p))
    m.update(breaks=m['property'], description=desc, needs_to_manifest=needs, first_run=first, wave=12)
    json.dump(m, open(p, 'w'), indent=1)
print(len(A))
