#!/venv/bin/python
"""prints the prompt for a mutation sub-agent: tools/agent_prompt.py C05 /tmp/fcwt/C05a [n_mutations]"""
import json, sys
pid, wt = sys.argv[1], sys.argv[2]
n = int(sys.argv[3]) if len(sys.argv) > 3 else 2
p = next(json.loads(l) for l in open('/verif/properties.jsonl') if json.loads(l)['id'] == pid)
mech = '\n'.join('  - %s: %s' % (m.get('name'), m.get('where')) for m in p['anchors']['mechanism'])
print(f"""You are helping to evaluate a verification effort for the Python library taborlab/FlowCal (flow cytometry: FCS reader, transforms, gates, statistics, bead-based MEF calibration, plotting, Excel batch UI). You get ONE semantic property of the library and your own scratch git worktree of the repository. Your job: produce {n} DIFFERENT realistic code changes ("mutations") to FlowCal, each of which BREAKS the property while the code still imports and the repository's existing test suite still passes, plus, for each, a small demonstration program that fails with the change and passes without it.

PROPERTY {pid}: {p['title']}
Statement: {p['statement']}
Quantified over: {p['quantifier']['text']}
Code the property is anchored in:
{mech}

YOUR WORKTREE: {wt}  (a detached git worktree of the repository; library code is in {wt}/FlowCal, tests in {wt}/test). Work ONLY inside this directory. Never touch /repo or /verif (do not even read /verif). Do not run git commands that affect other worktrees (no git worktree / branch / commit; `git diff`, `git checkout -- .` and `git status` inside your worktree are fine).

RULES FOR EACH MUTATION
1. It must be a plausible bug a developer could introduce (refactoring slip, off-by-one, wrong variable, stale cache/shared state, wrong default, mishandled edge case, two sites that each look fine alone...). Prefer changes that need something SPECIFIC to manifest - an unusual but legal input, a particular sequence of calls, a particular combination of arguments, a fault at a particular point - NOT changes that any ordinary use would expose at once. Keep each change small (a few lines) and confined to {wt}/FlowCal.
2. The existing test suite must still pass with the change. Run it yourself from the worktree:
     cd {wt} && /venv/bin/python -m pytest -q -p no:cacheprovider -x test 2>&1 | tail -5
   (about 20 tests fail already WITHOUT any change - TestMode, TestFCSAttributesChannelLabels, test_read_table_xls and possibly a few others; what matters is that your change adds NO new failure: compare the list of failing tests before and after; do not use -x when comparing.)
3. Write a demonstration script demo_<k>.py in {wt} that uses the library's public API (run it with: cd {wt} && PYTHONPATH={wt} MPLBACKEND=Agg /venv/bin/python demo_<k>.py), exits 0 and prints PASS on the unchanged code, and exits non-zero (assertion failure) with the mutation applied. It must check the PROPERTY above (not an implementation detail). It may generate its own input files (write them under /dev/shm/<something unique> and clean up) or use the FCS files in {wt}/test and {wt}/examples.
4. Save each mutation as a unified diff relative to the unchanged worktree: after making mutation k, run `cd {wt} && git diff -- FlowCal > mutation_<k>.diff`, verify tests + demo, then restore the tree with `git checkout -- FlowCal` before starting the next mutation (each mutation must apply on its own to the unchanged tree; verify with `git apply --check mutation_<k>.diff`).
5. The {n} mutations must differ in mechanism (different function or different kind of fault), not be variants of one another.

At the end leave in {wt}: mutation_1.diff ... mutation_{n}.diff, demo_1.py ... demo_{n}.py, and the worktree restored to the unchanged state (`git status` shows only the new untracked files). Your final message must list, for each mutation: the file/function changed, a one-line description of the bug, what specific input/sequence it needs to manifest, and the commands you ran with their outcome (tests unchanged: yes/no; demo fails with mutation: yes/no; demo passes without: yes/no). Interpreter: /venv/bin/python (Python 3.12, NumPy 2, SciPy, pandas 3, matplotlib, scikit-learn). There is no network.""")
