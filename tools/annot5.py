import json, os
AS = 'reported by the check as it stood'
PRE = 'missed by the check as it stood (the strengthening below was made after reading the agent\'s report and before the first run): '
A = {
 'C01-9': ('read_fcs_data_segment mixed-width path: bytes accumulated in a hard-coded uint32 (shifts >= 32 give 0)', 'a mixed-width integer file with a 40..64-bit parameter holding a value >= 2**32', AS),
 'C01-10': ('read_fcs_header_segment: the six offset fields read with split() instead of fixed 8-column fields', 'a HEADER offset of 10,000,000 or more (fills all eight columns, no blank between fields)', PRE + 'layouts with DATA / ANALYSIS at offsets 9999990, 10000000, 12345678 (fcsgen pad_before)'),
 'C02-9': ('get_transform_fxn: the private copy of mef_channels dropped; the returned transformation aliases the caller\'s list', 'the caller changes its channel list after the call and then uses the transformation', 'missed; the harness now hands in its own containers and scrambles them after the call (values, channels, clustering channels), and a transformation that raises is a violation, not a harness error'),
 'C02-10': ('get_transform_fxn: with selection_fxn=None the all-ones mask overwrites the unknown-value mask', 'selection_fxn=None together with an unknown (None/NaN) manufacturer value', 'missed (default selection only); selection_fxn=None added as a layer-A dimension'),
 'C03-9': ('to_rfi: exponent from floor-divided channel values per decade', 'a log channel whose resolution is not a multiple of the number of decades', AS),
 'C03-10': ('to_rfi: missing amplification types written back into the caller\'s list', 'a settings list with None entries reused for a second sample with other $PnE', PRE + 'every argument list must come back as handed in'),
 'C04-9': ('FCSData.__getitem__/__setitem__: a two-element list key read as (events, channels)', 'events selected by a list of exactly two elements without a channel key', AS),
 'C04-10': ('FCSData._name_to_index: queried names stripped of blanks before the lookup', 'a blank-padded spelling of a real name (must be refused), or channel names that carry blanks', PRE + 'near misses of real names (padded, other case, prefix, empty) in the unknown-name menu'),
 'C05-9': ('density2d: events np.isclose to the top edge moved into the last bin', 'an event a hair above the uppermost edge while the last bin is kept', 'missed (nearest outside placement was 3.3e-4 away); placements one ulp / 1e-8 outside and inside the outermost edges added'),
 'C05-10': ('density2d: target count rounded instead of rounded up', 'f*n with a fractional part below 0.5', AS),
 'C06-9': ('to_mef: loop over the requested channels applies a curve once per mention', 'a request naming one channel more than once', 'missed (requests were duplicate-free); duplicate mentions in positions, names and mixed added'),
 'C06-10': ('get_transform_fxn: returned wrapper uses `channels or mef_channels`', 'the transformation called with position 0 or an empty request', AS),
 'C07-9': ('to_rfi: law applied to the original (integer) array instead of the float64 copy', 'amplifier parameters given as np.float32 (events computed in single, limits in double precision)', 'missed (settings from the file only); explicit parameters as Python and NumPy scalars of six types added'),
 'C07-10': ('gate.high_low: events np.isclose to a threshold treated as saturated', 'a log channel with resolution >= 100001 (18-bit)', AS),
 'C08-9': ('gate.high_low: explicit thresholds written into the sample\'s own range lists when channels is omitted', 'channels=None with an explicit threshold, then a defaulted call on the same sample', AS),
 'C08-10': ('gate.start_end: early return of the bare data when nothing is dropped, ignoring full_output', 'both counts zero or negative with full_output=True', 'missed (harness error: the oracle assumed the full form); a full form without mask / gated data is now a violation'),
 'C09-9': ('fit_beads_autofluorescence: std_crv zeroes the autofluorescence in the parameter array it shares with beads_model', 'std_crv evaluated before beads_model / before the parameters are read again', 'missed (the oracle read the parameters after evaluating the curve); parameters are captured when the fit returns, must not change, and beads_model must answer the same before and after'),
 'C09-10': ('fit_beads_autofluorescence: bead RFI floored at 1', 'a bead population with 0 < RFI < 1', AS),
 'C10-9': ('add_samples_stats: `break` instead of `continue` on a failed row', 'a failed row listed above a valid one', 'missed (healthy rows only); a row with a missing file above / between the rows under test added as a dimension'),
 'C10-10': ('process_samples_table: minimum-events check `<= 400`', 'a file with exactly 400 events', PRE + 'files with exactly 400 and 401 events as a dimension'),
 'C11-9': ('process_samples_table: detector voltage compared by truthiness', 'a sample acquired at detector voltage exactly 0 against beads at non-zero voltage', 'missed; fault voltage-zero added'),
 'C11-10': ('process_samples_table: per-row report lists reset only after a successful row', 'a row failing after registering units, followed by a healthy integer row that reports fewer channels', 'missed (every healthy integer row reported both channels); the rows of a table now report different channel sets'),
 'C12-9': ('stats.mode: one-column result collapsed to a scalar', 'a 2-D input with exactly one column / a one-element channel list', AS),
 'C12-10': ('FCSData.__getitem__: Ellipsis in the channel position turned into slice(None)', 'float sample, scalar channel, iqr / rcv', AS),
 'C13-9': ('plot.density_and_hist: per-histogram parameter dictionaries no longer copied when given as a list', 'hist_params as a list of dictionaries', AS),
 'C13-10': ('gate.high_low: returns the input object itself when every event passes', 'data and thresholds such that nothing is removed, then a change of the result', AS),
 'C14-9': ('FCSFile.__init__: supplemental TEXT read only for versions above 3.0', 'an FCS3.0 file with a supplemental TEXT segment', AS),
 'C14-10': ('read_fcs_text_segment: values stripped of surrounding whitespace', 'a value beginning or ending with a blank, tab or line end', AS + ' (whitespace delimiters of the delimiter sweep); dictionaries over {x, blank, delimiter} added as well'),
 'C15-9': ('excel_ui.read_table: workbook bytes cached in a module-level dictionary keyed by file name', 'the same path written, read, rewritten and read again in one process', AS),
 'C15-10': ('process_samples_table: bead transformation looked up for every row', 'a sample row with an empty Beads ID', AS),
 'C16-9': ('read_fcs_data_segment: DATA end clamped to the file size (stacks with the one-byte tolerance)', 'DATA last in the file, one-past-the-end convention, begin offset one too small', AS),
 'C16-10': ('read_fcs_text_segment: truncation check compares the file size with the segment length', 'a TEXT-like segment that is the last segment of the file, cut short', AS),
 'C17-9': ('FCSData.__new__: parsed gain initialised once before the channel loop', 'a channel without gain keyword after a channel with one', PRE + 'per-channel keywords present for every subset of channels (and standard / fallback / both per channel)'),
 'C17-10': ('FCSData.acquisition_time: time channel matched by substring', 'a channel whose name contains "time" (Lifetime-A, TimeOfFlight)', PRE + 'nine time-like channel names x presence subsets of the time keywords'),
 'C18-9': ('_LogicleTransform.__init__: "has a range" decided once on the first sample of a list', 'a list mixing plain arrays and samples, the array first', 'missed (homogeneous lists only); mixed lists in three arrangements added'),
 'C18-10': ('_LogicleTransform.__init__: lower clamp of the derived W at 0 lost', 'negative events all smaller in magnitude than T*10**-M', AS),
 'C19-9': ('FCSData.hist_bins: single channel vs list decided from the raw argument type', 'channels given as a tuple', 'missed (lists only); tuples, negative positions and one-element forms added'),
 'C19-10': ('_LogicleTransform.__init__ (default W): lower clamp at 0 lost', 'a float sample whose negative events are tiny relative to the range', 'missed (reported, but an unguarded reference call of the list clauses raised next to it: harness error); those calls are guarded now'),
 'C20-9': ('FCSData.__reduce__: range taken from the public accessor (resolves names)', 'a sample with a repeated channel name whose copies have different ranges, pickled', 'missed (no repeated names; the fingerprint itself asked by name); the fingerprint asks by position, operations selecting a channel twice and converting one copy added'),
 'C20-10': ('FCSFile.__eq__: events compared after nan_to_num', 'two files differing only in NaN vs 0.0 or +-inf vs the extreme finite value', 'missed; non-finite events on both sides of the file edits added -- which exposed a genuine defect (two loads of a file with a NaN event compare unequal), fixed in 3e21d43'),
}
for name, (desc, needs, first) in A.items():
    p = '/verif/seeded/%s/meta.json' % name
    m = json.load(open(p))
    if first.startswith('missed by the check as it stood'):
        pass
    m.update(breaks=m['property'], description=desc, needs_to_manifest=needs, first_run=first, wave=5)
    json.dump(m, open(p, 'w'), indent=1)
print(len(A))
