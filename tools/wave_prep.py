#!/venv/bin/python
"""Prepares a mutation wave: tools/wave_prep.py <suffix> [ids...]
For each property creates a scratch worktree /tmp/fcwt/<Cnn><suffix> of /repo HEAD and writes TASK.md into it: the prompt of
tools/agent_prompt.py (property text only, nothing from /verif's machinery) plus the list of changes ALREADY TAKEN for that
property (description and trigger of the kept seeds) and the wave's hint paragraph."""
import json, os, subprocess, sys
suffix = sys.argv[1]
ids = sys.argv[2:] or ['C%02d' % i for i in range(1, 21)]
HINT = """
ADDITIONAL GUIDANCE FOR THIS ROUND
Earlier rounds already produced the changes listed below for this property. Produce changes with a DIFFERENT mechanism and a DIFFERENT
trigger. Directions that earlier rounds used little: interactions between two functions or two arguments that are each fine alone;
behaviour that depends on the order or history of calls on the same object; values at the boundary of a legal domain (largest /
smallest, exactly equal, empty, one element, ten or more items, duplicates); numeric-type effects (integer vs float, 32 vs 64 bit,
unsigned wrap-around, NaN / inf); legal but unusual spellings of arguments (negative positions, tuples, numpy scalars, mixed lists,
upper/lower case, surrounding blanks); error paths and fallbacks; defaults evaluated once; state cached on the object or the module;
code shared with another feature (a helper used by several callers) changed so that only one caller's use breaks.
Prefer functions, branches and helper modules that the ALREADY TAKEN list has not touched yet (the property is anchored in several
functions; changes in a helper that the anchored code calls count as well), and triggers that a systematic tester who enumerates small
inputs exhaustively would still be unlikely to include.
Do not use `git stash`. Do not read or touch /verif or /repo.
"""
os.makedirs('/tmp/fcwt', exist_ok=True)
for pid in ids:
    wt = '/tmp/fcwt/%s%s' % (pid, suffix)
    subprocess.run(['git', '-C', '/repo', 'worktree', 'remove', '--force', wt], stderr=subprocess.DEVNULL)
    subprocess.check_call(['git', '-C', '/repo', 'worktree', 'add', '--detach', wt, 'HEAD'], stdout=subprocess.DEVNULL, stderr=subprocess.DEVNULL)
    prompt = subprocess.check_output(['/verif/tools/agent_prompt.py', pid, wt, '2']).decode()
    taken = []
    for name in sorted(os.listdir('/verif/seeded')):
        if not name.startswith(pid + '-'):
            continue
        m = json.load(open('/verif/seeded/%s/meta.json' % name))
        taken.append('  %d. %s  [needed: %s]' % (len(taken) + 1, m.get('description', '?'), m.get('needs_to_manifest', '?')))
    with open(os.path.join(wt, 'TASK.md'), 'w') as f:
        f.write(prompt + '\n' + HINT + '\nALREADY TAKEN (do not repeat these mechanisms or triggers):\n' + '\n'.join(taken) + '\n')
    print(wt, len(taken), 'taken')
