#!/venv/bin/python
"""Confirm a seeded change produced by a sub-agent and run the checks against it.

usage: tools/seed_eval.py <agent_worktree> <k> <property> <seed-name> [--tier quick|thorough] [--also C04,C13]

Works in its own scratch worktree of /repo HEAD under /tmp/fcev (removed afterwards):
  1. the patch applies to the unchanged tree;
  2. the repository's pinned suite still passes (400/400 stable tests) with the patch;
  3. the demonstration passes without the patch and fails with it;
  4. ./check <property> (FCVERIF_REPO = the scratch worktree) -> detected or missed.
Writes /verif/seeded/<seed-name>/{patch.diff, demo.py, meta.json}.
"""
import json, os, shutil, subprocess, sys, time

agent_wt, k, prop, name = sys.argv[1:5]
tier = 'quick'
also = []
args = sys.argv[5:]
while args:
    a = args.pop(0)
    if a == '--tier':
        tier = args.pop(0)
    elif a == '--also':
        also = args.pop(0).split(',')
patch = os.path.join(agent_wt, 'mutation_%s.diff' % k)
demo = os.path.join(agent_wt, 'demo_%s.py' % k)
ev = '/tmp/fcev/%s' % name
os.makedirs('/tmp/fcev', exist_ok=True)
subprocess.run(['git', '-C', '/repo', 'worktree', 'remove', '--force', ev], stderr=subprocess.DEVNULL)
subprocess.check_call(['git', '-C', '/repo', 'worktree', 'add', '--detach', ev, 'HEAD'], stdout=subprocess.DEVNULL, stderr=subprocess.DEVNULL)
meta = {'seed': name, 'property': prop, 'source': 'sub-agent worktree %s mutation %s' % (agent_wt, k), 'repo_head': subprocess.check_output(
    ['git', '-C', '/repo', 'rev-parse', '--short', 'HEAD']).decode().strip(), 'ran': []}


def sh(cmd, cwd=None, env=None, timeout=3600):
    e = dict(os.environ)
    e.update(env or {})
    p = subprocess.run(cmd, shell=True, cwd=cwd, env=e, stdout=subprocess.PIPE, stderr=subprocess.STDOUT, universal_newlines=True, timeout=timeout)
    return p.returncode, p.stdout


try:
    shutil.copy(demo, os.path.join(ev, 'demo.py'))
    denv = {'PYTHONPATH': ev, 'MPLBACKEND': 'Agg', 'OMP_NUM_THREADS': '1'}
    rc0, out0 = sh('/venv/bin/python demo.py', cwd=ev, env=denv)
    meta['demo_passes_without'] = rc0 == 0
    rc, out = sh('git apply %s' % patch, cwd=ev)
    meta['patch_applies'] = rc == 0
    if rc != 0:
        raise SystemExit('patch does not apply: ' + out)
    rc1, out1 = sh('/venv/bin/python demo.py', cwd=ev, env=denv)
    meta['demo_fails_with'] = rc1 != 0
    meta['demo_output_with'] = out1[-600:]
    rcb, outb = sh('/verif/tools/baseline.py %s' % ev)
    meta['baseline_400_pass_with'] = rcb == 0
    meta['baseline_output'] = outb.strip()[-300:]
    meta['ran'] += ['demo.py without patch (exit %d)' % rc0, 'git apply patch.diff', 'demo.py with patch (exit %d)' % rc1, 'tools/baseline.py (exit %d)' % rcb]
    results = {}
    for p in [prop] + also:
        t0 = time.time()
        rcc, outc = sh('FCVERIF_NO_REREPLAY=1 FCVERIF_EVIDENCE_DIR=/tmp/fcev/ev_%s ./check %s --tier %s' % (name, p, tier), cwd='/verif', env={'FCVERIF_REPO': ev, 'FCVERIF_NO_VALIDATE': '1'})
        lines = [l for l in outc.splitlines() if l.startswith('VIOLATION') or l.startswith('  ') or l.startswith(p + ' tier')]
        results[p] = {'exit': rcc, 'detected': rcc == 1, 'first_violation': next((l.strip()[:300] for l in outc.splitlines() if l.startswith('  ') and ':' in l), None),
                      'wall_s': round(time.time() - t0, 1), 'tier': tier}
        if rcc not in (0, 1):
            results[p]['output_tail'] = outc[-800:]
        meta['ran'].append('FCVERIF_REPO=<scratch worktree with patch> ./check %s --tier %s (exit %d)' % (p, tier, rcc))
    meta['checks'] = results
    meta['detected_by'] = [p for p, r in results.items() if r['detected']]
    sd = '/verif/seeded/%s' % name
    os.makedirs(sd, exist_ok=True)
    shutil.copy(patch, os.path.join(sd, 'patch.diff'))
    shutil.copy(demo, os.path.join(sd, 'demo.py'))
    old = {}
    if os.path.exists(os.path.join(sd, 'meta.json')):
        old = json.load(open(os.path.join(sd, 'meta.json')))
    for key in ('breaks', 'needs_to_manifest', 'description'):
        if key in old:
            meta[key] = old[key]
    json.dump(meta, open(os.path.join(sd, 'meta.json'), 'w'), indent=1)
    print(json.dumps({k_: meta[k_] for k_ in ('seed', 'demo_passes_without', 'demo_fails_with', 'baseline_400_pass_with', 'detected_by')}))
    for p, r in results.items():
        print(' ', p, 'exit', r['exit'], r['first_violation'])
finally:
    subprocess.run(['git', '-C', '/repo', 'worktree', 'remove', '--force', ev], stderr=subprocess.DEVNULL)
    shutil.rmtree('/tmp/fcev/ev_%s' % name, ignore_errors=True)
