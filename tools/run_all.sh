#!/bin/bash
# usage: tools/run_all.sh quick|thorough [ids...]   -- runs the checks one after the other, prints one summary line each
cd "$(dirname "$0")/.."
tier=${1:-quick}; shift
ids=${@:-C01 C02 C03 C04 C05 C06 C07 C08 C09 C10 C11 C12 C13 C14 C15 C16 C17 C18 C19 C20}
rc=0
for p in $ids; do
  out=$(./check $p --tier $tier 2>&1); r=$?
  echo "$out" | grep -E "^C[0-9]+ tier|^VIOLATION|^KNOWN-FINDING|EVIDENCE-INVALID|HARNESS" | cut -c1-300
  echo "  -> $p exit $r"
  [ $r -ne 0 ] && rc=1
done
exit $rc
