#!/venv/bin/python
"""Runs the repository's pinned test suite (in REPO, default /repo) and checks that every test
of BASELINE.json's stable_pass list still passes.  usage: baseline.py [repo_dir]"""
import json, os, subprocess, sys, tempfile
import xml.etree.ElementTree as ET
repo = sys.argv[1] if len(sys.argv) > 1 else '/repo'
base = json.load(open('/root/.vp/BASELINE.json'))
fd, xml = tempfile.mkstemp(suffix='.xml', dir='/dev/shm'); os.close(fd)
env = dict(os.environ); env.pop('FLOWCAL_VERIF', None); env['PYTHONPATH'] = repo
p = subprocess.run(['/venv/bin/python', '-m', 'pytest', '-q', '-p', 'no:cacheprovider', '--timeout=900',
                    '--continue-on-collection-errors', '--junitxml=' + xml], cwd=repo, env=env,
                   stdout=subprocess.PIPE, stderr=subprocess.STDOUT, universal_newlines=True)
passed = set()
for tc in ET.parse(xml).getroot().iter('testcase'):
    if not list(tc):
        passed.add('%s::%s' % (tc.get('classname'), tc.get('name')))
os.unlink(xml)
missing = [t for t in base['stable_pass'] if t not in passed]
print('baseline: %d/%d stable tests pass in %s' % (len(base['stable_pass']) - len(missing), len(base['stable_pass']), repo))
for m in missing[:20]:
    print('  NOT PASSING:', m)
sys.exit(1 if missing else 0)
