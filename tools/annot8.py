import json, os
AS = 'reported by the check as it stood'
PRE = 'missed by the check as it stood (the strengthening below was made after reading the agent\'s report and before the first run): '
A = {
 'C01-15': ('read_fcs_data_segment: uniform path chosen when every width is a machine width (not: all equal)', 'differing widths drawn only from 8/16/32/64', AS),
 'C01-16': ('read_fcs_data_segment: R - 1 evaluated in double precision before the bit count', '$PnR a power of two >= 2**54 on a 64-bit parameter', AS),
 'C02-15': ('mef.clustering_gmm: logicle rescaling cached at module level per channel name', 'two calibrations in one process on files whose equally named channels differ in range / brightness', 'missed; sequences of calibrations (4-decade integer file, floating-point file with beads a hundred times brighter, again), placed first in their worker'),
 'C02-16': ('to_mef: curves filtered in calibration order, zipped with the channels in request order', 'the returned transformation called with several channels in another order than calibrated', PRE + 'multi-channel requests in reversed / rotated order, each channel compared with its single-channel conversion'),
 'C03-15': ('to_rfi: the law chosen by the offset field (at[1] == 0) instead of the decades', 'amplification type (0, a1) with a1 != 0', PRE + '(0, 1) and (0, 2.5) added to the override menu'),
 'C03-16': ('to_rfi: a resolution demanded before the branch, also for linear channels', 'a plain array, a linear channel, resolution omitted / None', AS + ' (narrow-type arrays); linear channels without resolution added for all arrays as well'),
 'C04-15': ('FCSData.__array_finalize__: the range list copied shallowly', 'a range entry of a derived array edited in place', PRE + 'editing a range entry of a second identical selection must leave the sample and the first selection unchanged'),
 'C04-16': ('FCSData._name_to_index: name lookup with == before the iterable dispatch', 'a one-element NumPy string array as channel selector', PRE + 'NumPy arrays of names among the other accepted forms'),
 'C05-15': ('density2d: np.asarray instead of np.array for the reported edges', 'float64 edge arrays, then a change of the caller\'s arrays', PRE + 'the caller\'s edge arrays are rescaled after the call; the reported edges must not move'),
 'C05-16': ('density2d: target count via .astype(int) (NaN no longer raises)', 'gate_fraction = NaN', PRE + 'NaN / +-inf fractions added to the refusals'),
 'C06-15': ('to_mef: curve output written back only where finite', 'a curve that is NaN / inf on some events', PRE + 'curves log, 1/x, sqrt, log10 on samples with zeros and negative events'),
 'C06-16': ('get_transform_fxn: late-binding lambdas around the fitted curves', 'a calibration of two or more channels, checked on any but the last', AS),
 'C07-15': ('to_rfi: the whole range list re-initialised from the resolutions on every call', 'channels converted in several calls, each on the previous result', 'missed; chains of two conversions with every earlier channel\'s limits checked'),
 'C07-16': ('FCSData.__getitem__ (slice branch): the range list is not sliced', 'a block of channels taken with a slice not starting at column 0, after a conversion', PRE + 'slices of the converted sample must carry the limits of exactly their channels'),
 'C08-15': ('gate.ellipse: tolerance 1e-9 added to the inequality', 'events a relative 1e-10 outside the ellipse', 'missed (the oracle itself treated |q-1| < 1e-9 as undecided); events at relative radii 1 -+ 1e-10 and 1e-6 in seven directions, five ellipses, linear and log'),
 'C08-16': ('FCSData.__getitem__: position k as slice(k, k+1) (empty for -1)', 'high_low with the scalar channel -1 on a loaded sample', AS),
 'C09-15': ('fit_beads_autofluorescence: length check replaced by broadcasting', 'one value against three or more', PRE + 'one-against-many pairs in the refusals'),
 'C09-16': ('fit_beads_autofluorescence: result array as a mutable default argument shared by all fits', 'an earlier fit used after a later one was made', PRE + 'the previous fit of the lattice is re-evaluated after every new fit'),
 'C10-15': ('process_samples_table: blanks removed from the instrument\'s channel list', 'a fluorescence channel name with a blank inside', 'missed; instruments with "Pacific Blue-H" / "FL 2-H" channels as a dimension'),
 'C10-16': ('add_samples_stats: positive events selected as ~(x <= 0) (NaN counts as positive)', 'floating-point data with NaN events and a non-positive event in a reported channel', 'missed; floating-point files now hold a few NaN events in the second fluorescence channel'),
 'C11-15': ('process_samples_table: non-text units cells skipped like empty ones', 'a number in a units cell', AS),
 'C11-16': ('process_beads_table: transformation not reset for a row without MEF values', 'an uncalibrated bead row after a calibrated one, MEF asked from it, no beads_table passed', PRE + 'every small table is processed a second time without the optional beads table'),
 'C12-15': ('FCSData.__getitem__: attributes not re-sliced when the result has as many columns as the parent', 'a sub-sample keeping every channel in another order, then a statistic by name', PRE + 'full-width reversed / reordered sub-samples as containers'),
 'C12-16': ('stats: logarithms cached on the sample object', 'gstd / gcv without channel, an in-place edit, again', PRE + 'all statistics asked without channel, events edited in place, asked again'),
 'C13-15': ('to_rfi: zero offset of a log amplifier normalised in the caller\'s inner list', 'amplification_type as a list of lists with [decades, 0]', 'missed (tuples only); recipe with nested lists'),
 'C13-16': ('FCSFile.__init__: the file object closed unconditionally', 'an open file object handed to FCSFile / FCSData', 'missed (open files were not among the inputs whose state is compared); recipes with open file objects, whose open / closed state is part of the input fingerprint'),
 'C14-15': ('read_fcs_text_segment: $-keywords upper-cased', 'a $-keyword written in lower or mixed case', PRE + 'keywords differing only in letter case'),
 'C14-16': ('FCSFile.__init__: blank-padded supplemental / ANALYSIS offsets read as 0', 'offset keywords blank-padded in their fields', AS + ' (offset formats of wave 7)'),
 'C15-15': ('add_samples_stats: units header rebuilt as channel + " Units"', 'a units header with irregular blanks (allowed by the documented pattern)', PRE + 'workbooks whose units headers carry double / leading / trailing blanks'),
 'C15-16': ('process_samples_table: hist_channels=None passed to density_and_hist for a row without units', 'plot=True and a sample row with no units at all', AS),
 'C16-15': ('read_fcs_data_segment (floats): the one-byte tolerance made symmetric', 'float file, exact end convention, bytes after DATA, begin offset +1', AS),
 'C16-16': ('read_fcs_text_segment: inverted offsets return an empty dictionary', 'a file with supplemental TEXT whose $ENDSTEXT / $BEGINSTEXT are damaged to an inverted pair', AS),
 'C17-15': ('_parse_time_string: the decimal-point test looks at the whole string', '$BTIM with a decimal point in the hour or minute field', PRE + 'six such strings in the ill-formed menu'),
 'C17-16': ('FCSData.__new__: CellQuest Pro recognised only at the start of CREATOR', 'CREATOR = "BD CellQuest Pro 6.0"', PRE + 'creators with the product name in the middle'),
 'C18-15': ('_InterpolatedInverseTransform: result cast back to the dtype of the input', 'data values given as integers', PRE + 'the inverse on whole numbers held in four types and as a NumPy scalar'),
 'C18-16': ('_LogicleTransform.__init__: T replaced by the largest event when it lies above the range', 'a sample with a known range and an event above it', PRE + 'samples with events above their range, alone and in a list'),
 'C19-15': ('hist_bins: per-request memo keyed by channel', 'a channel named twice in one request with different nbins / scale', PRE + 'repeated channels with their own bin counts / scales'),
 'C19-16': ('hist_bins: None entries of the caller\'s nbins list overwritten', 'a per-channel nbins list with None, reused for another channel group', PRE + 'the lists come back unchanged and are reused on other channels'),
 'C20-15': ('FCSData.__reduce__: `float(v) if v else None` for voltages and gains', 'a detector voltage of exactly 0, pickled', PRE + 'the full base file records $P1V = 0'),
 'C20-16': ('FCSData.__setstate__: ranges sorted on unpickling', 'a decreasing range (decreasing standard curve), pickled', PRE + 'a conversion with a decreasing curve among the operations'),
}
for name, (desc, needs, first) in A.items():
    p = '/verif/seeded/%s/meta.json' % name
    m = json.load(open(p))
    m.update(breaks=m['property'], description=desc, needs_to_manifest=needs, first_run=first, wave=8)
    json.dump(m, open(p, 'w'), indent=1)
print(len(A))
