"""Runner shared by all property checks.

A property module (fcverif/props/cNN.py) provides

    ID, LEVEL, RULE, ASSUMPTIONS (list of str), TECHNIQUE (str)
    cases(tier, seed)      -> iterable of JSON-able case descriptors; a descriptor may
                              denote a whole batch (a sub-space enumerated inside run_case)
    run_case(case)         -> Result (see class below)

The runner enumerates *all* cases (no sampling, no time cap), spreads them over a pool of
long-lived workers in a deterministic partition, merges the results in case order, matches
violations against /verif/known_findings.json, replays every new violation twice in a fresh
process, writes replays/<ID>/<hash>.json and evidence/<ID>.json and prints the
`VIOLATION property=<ID> replay=<path>` lines.
"""
import atexit
import collections
import hashlib
import itertools
import json
import multiprocessing as mp
import os
import re
import shutil
import subprocess
import sys
import time
import traceback
import warnings

ROOT = os.path.dirname(os.path.dirname(os.path.abspath(__file__)))
SCRATCH_ROOT = None          # set per process


class Result(object):
    """Accumulates what one run_case() explored."""

    def __init__(self):
        self.n = 0                  # executions / evaluations
        self.nontrivial = 0         # distinct non-trivial ones among them (by the module's RULE)
        self.classes = collections.Counter()   # outcome class -> count (vacuity guard)
        self.counters = collections.Counter()  # free counters: states, transitions, ...
        self.violations = []        # dicts: sig, msg, case (stand-alone replayable descriptor)
        self.samples = []           # a few written-out cases
        self.notes = collections.Counter()     # observations that are not violations
        self.hashes = set()         # digests of distinct explicit states visited (E2)

    def ok(self, cls, nontrivial=True, k=1):
        self.n += k
        if nontrivial:
            self.nontrivial += k
        self.classes[cls] += k

    def violation(self, sig, msg, case):
        self.violations.append({'sig': sig, 'msg': msg, 'case': case})
        self.classes['VIOLATION'] += 1
        self.n += 1                 # a violating execution is an evaluation too
        self.nontrivial += 1

    def sample(self, s):
        if len(self.samples) < 3:
            self.samples.append(s)

    def pack(self):
        return {'n': self.n, 'nontrivial': self.nontrivial, 'classes': dict(self.classes),
                'counters': dict(self.counters), 'violations': self.violations[:200],
                'nviol': len(self.violations), 'samples': self.samples,
                'notes': dict(self.notes), 'hashes': list(self.hashes)}


def scratch():
    """Per-process scratch directory on tmpfs (removed by the parent at exit)."""
    global SCRATCH_ROOT
    base = os.environ.get('FCVERIF_SCRATCH')
    if base is None:
        base = '/dev/shm/fcverif-%d' % os.getpid()
        os.environ['FCVERIF_SCRATCH'] = base
        atexit.register(shutil.rmtree, base, True)
    d = os.path.join(base, 'w%d' % os.getpid())
    if SCRATCH_ROOT != d:
        os.makedirs(d, exist_ok=True)
        SCRATCH_ROOT = d
    return d


def load_module(pid):
    import importlib
    return importlib.import_module('fcverif.props.%s' % pid.lower())


_MOD = None


def _worker_init(pid):
    global _MOD
    _MOD = load_module(pid)
    scratch()
    warnings.simplefilter('ignore')


def _run_chunk(args):
    idx, chunk = args
    out = []
    for case in chunk:
        try:
            r = _MOD.run_case(case)
            out.append(r.pack())
        except Exception:
            # An exception escaping run_case is a harness error, never a verdict.
            out.append({'harness_error': traceback.format_exc(), 'case': case})
    return idx, out


def _rank_main(pid, share, q):
    _worker_init(pid)
    for item in share:
        q.put(_run_chunk(item))
    q.put(None)


def _chunks(it, size):
    it = iter(it)
    i = 0
    while True:
        c = list(itertools.islice(it, size))
        if not c:
            return
        yield i, c
        i += 1


def load_known(pid):
    p = os.path.join(ROOT, 'known_findings.json')
    if not os.path.exists(p):
        return []
    kf = json.load(open(p))
    return [f for f in kf.get('findings', []) if f.get('property') == pid]


def _replay_subprocess(pid, path):
    env = dict(os.environ)
    env.pop('FCVERIF_SCRATCH', None)
    p = subprocess.run([sys.executable, '-m', 'fcverif', pid, '--replay', path, '--json'],
                       cwd=ROOT, env=env, stdout=subprocess.PIPE, stderr=subprocess.PIPE,
                       universal_newlines=True, timeout=3600)
    for line in p.stdout.splitlines():
        if line.startswith('REPLAY-JSON '):
            return json.loads(line[len('REPLAY-JSON '):])
    return {'error': (p.stdout + p.stderr)[-2000:]}


def replay(pid, path, as_json=False):
    """Re-run exactly one recorded case, without any explorer."""
    mod = load_module(pid)
    scratch()
    rec = json.load(open(path))
    warnings.simplefilter('ignore')
    r = mod.run_case(rec['case'])
    sigs = sorted(set(v['sig'] for v in r.violations))
    if as_json:
        print('REPLAY-JSON ' + json.dumps({'sigs': sigs}))
    else:
        for v in r.violations:
            print('reproduced: %s -- %s' % (v['sig'], v['msg']))
        if not r.violations:
            print('not reproduced: the recorded case passes on this tree')
    return 1 if rec.get('sig') in sigs or (sigs and not rec.get('sig')) else 0


def run(pid, tier, seed, workers=None, chunk=None):
    t0 = time.time()
    mod = load_module(pid)
    import FlowCal
    want = os.path.realpath(os.environ.get('FCVERIF_REPO', '/repo'))
    if not os.path.realpath(FlowCal.__file__).startswith(want + os.sep):
        sys.stderr.write('HARNESS-ERROR: FlowCal imported from %s, expected under %s\n' % (FlowCal.__file__, want))
        return 3
    workers = workers or int(os.environ.get('FCVERIF_WORKERS', '16'))
    chunk = chunk or getattr(mod, 'CHUNK', 8)
    scratch()
    known = load_known(pid)

    total = Result()
    viol = []
    nviol = 0
    harness_errors = []
    ncases = 0
    hashes = set()
    # Deterministic static partition: chunk i is executed by worker i mod N, in increasing order, in a process that
    # executes nothing else.  State leaked between cases inside the library (module-level caches, mutable default
    # arguments) therefore shows up in the same executions on every run.
    chunks = list(_chunks(mod.cases(tier, seed), chunk))
    outputs = {}
    if workers > 1 and len(chunks) > 1:
        ctx = mp.get_context('fork')
        q = ctx.Queue()
        nw = min(workers, len(chunks))
        procs = []
        for r in range(nw):
            share = [c for c in chunks if c[0] % nw == r]
            p = ctx.Process(target=_rank_main, args=(pid, share, q))
            p.daemon = True
            p.start()
            procs.append(p)
        finished = 0
        try:
            while finished < nw:
                try:
                    item = q.get(timeout=5)
                except Exception:
                    if all(not p.is_alive() for p in procs) and q.empty():
                        break
                    continue
                if item is None:
                    finished += 1
                else:
                    outputs[item[0]] = item[1]
        finally:
            for p in procs:
                if p.is_alive() and finished >= nw:
                    p.join(timeout=5)
                if p.is_alive():
                    p.terminate()
        for idx, ch in chunks:
            if idx not in outputs:
                outputs[idx] = [{'harness_error': 'worker process died before finishing this chunk', 'case': c_} for c_ in ch]
    else:
        _worker_init(pid)
        for item in chunks:
            idx, out = _run_chunk(item)
            outputs[idx] = out
    for idx in sorted(outputs):
        for r in outputs[idx]:
            ncases += 1
            if 'harness_error' in r:
                harness_errors.append(r)
                continue
            total.n += r['n']
            total.nontrivial += r['nontrivial']
            total.classes.update(r['classes'])
            for ck, cv in r['counters'].items():
                if ck.startswith('max_'):
                    total.counters[ck] = max(total.counters[ck], cv)
                else:
                    total.counters[ck] += cv
            total.notes.update(r['notes'])
            nviol += r['nviol']
            hashes.update(r.get('hashes', ()))
            viol.extend(r['violations'])
            for s_ in r['samples']:
                total.sample(s_)

    if harness_errors:
        for h in harness_errors[:3]:
            sys.stderr.write('HARNESS-ERROR in %s case %s\n%s\n' % (
                pid, json.dumps(h['case'])[:500], h['harness_error']))
        sys.stderr.write('HARNESS-ERROR: %d cases could not be judged\n' % len(harness_errors))

    # group violations by signature; known findings are matched on the signature
    by_sig = collections.OrderedDict()
    for v in viol:
        by_sig.setdefault(v['sig'], v)
    new, known_hit = [], collections.OrderedDict()
    for sig, v in by_sig.items():
        k = next((f for f in known if re.search(f['sig_regex'], sig)), None)
        if k is not None:
            known_hit.setdefault(k['what'], []).append(sig)
        else:
            new.append(v)

    for what, sigs in known_hit.items():
        print('KNOWN-FINDING: property=%s %s [%d case signatures, e.g. %s]' % (
            pid, what, len(sigs), sigs[0]))

    alt = os.environ.get('FCVERIF_EVIDENCE_DIR')      # runs against seeded changes must not overwrite the real evidence
    rdir = os.path.join(alt, 'replays', pid) if alt else os.path.join(ROOT, 'replays', pid)
    reported = 0
    nondet = 0
    for v in new[:10]:
        os.makedirs(rdir, exist_ok=True)
        h = hashlib.sha1(json.dumps([v['sig'], v['case']], sort_keys=True).encode()).hexdigest()[:12]
        path = os.path.join(rdir, h + '.json')
        with open(path, 'w') as f:
            json.dump({'property': pid, 'sig': v['sig'], 'explanation': v['msg'],
                       'case': v['case'], 'tier': tier, 'seed': seed}, f, indent=1, sort_keys=True)
        if os.environ.get('FCVERIF_NO_REREPLAY'):
            a = b = {'sigs': [v['sig']]}
        else:
            a = _replay_subprocess(pid, path)
            b = _replay_subprocess(pid, path)
        if a != b or v['sig'] not in a.get('sigs', []):
            nondet += 1
            sys.stderr.write('HARNESS-NONDETERMINISM property=%s replay=%s first=%s second=%s\n' % (
                pid, path, json.dumps(a)[:300], json.dumps(b)[:300]))
            continue
        reported += 1
        print('VIOLATION property=%s replay=%s' % (pid, path))
        print('  %s: %s' % (v['sig'], v['msg'][:400]))
    if len(new) > 10:
        print('  (%d further distinct violation signatures not written out)' % (len(new) - 10))

    wall = time.time() - t0
    cov = {
        'evaluations': total.n,
        'distinct_nontrivial': total.nontrivial,
        'rule': mod.RULE,
        'samples': total.samples or ['(no sample recorded)'],
        'exhaustive': bool(getattr(mod, 'EXHAUSTIVE', True)) and not harness_errors,
        'outcome_classes': dict(total.classes),
        'distinct_outcome_classes': len(total.classes),
        'case_descriptors': ncases,
        'bounds': mod.bounds(tier, seed) if hasattr(mod, 'bounds') else {},
        'observations': dict(total.notes),
        'known_findings_hit': {k: len(s) for k, s in known_hit.items()},
        'harness_errors': len(harness_errors),
        'workers': workers,
    }
    for k, val in total.counters.items():
        cov[k] = val
    if not os.environ.get('FCVERIF_NO_ANCHORS'):
        try:
            from . import anchors
            _worker_init(pid)
            cov['anchor_coverage'] = anchors.measure(pid, mod, tier, seed)
        except Exception as e:      # the vacuity report must never decide anything
            cov['anchor_coverage'] = {'note': 'not measured: %s: %s' % (type(e).__name__, e)}
    if hashes:
        cov['states'] = len(hashes)
    if mod.LEVEL == 'model_checking':
        cov.setdefault('states', 0)
        cov.setdefault('transitions', 0)
        cov.setdefault('traces_validated_against_impl', cov.get('transitions', 0))
    ev = {
        'property_id': pid, 'tier': tier, 'seed': seed, 'level': mod.LEVEL,
        'coverage': cov, 'assumptions': list(getattr(mod, 'ASSUMPTIONS', [])),
        'wall_s': round(wall, 2), 'violations': len(new),
        'technique': getattr(mod, 'TECHNIQUE', ''),
    }
    evdir = os.path.join(alt, 'evidence') if alt else os.path.join(ROOT, 'evidence')
    os.makedirs(evdir, exist_ok=True)
    with open(os.path.join(evdir, pid + '.json'), 'w') as f:
        json.dump(ev, f, indent=1, sort_keys=True, default=str)
        f.write('\n')
    print('%s tier=%s seed=%d cases=%d evaluations=%d nontrivial=%d classes=%d violations=%d '
          'known=%d wall=%.1fs' % (pid, tier, seed, ncases, total.n, total.nontrivial,
                                   len(total.classes), len(new), len(known_hit), wall))
    extra = ' '.join('%s=%d' % kv for kv in sorted(total.counters.items()))
    if extra:
        print('  ' + extra)
    if harness_errors or nondet:
        return 3
    return 1 if reported else 0
