"""Generated experiments for the Excel workflow (C10, C11, C15): FCS files + an input workbook.

The workbook is written with openpyxl directly (not with FlowCal.excel_ui.write_workbook).
"""
import math
import os

import openpyxl

from . import fcsgen, beadsgen

BEAD_LAWS = [(1.0, 3.0, 0.0), (1.1, 2.0, 0.0), (0.95, 4.0, 0.0), (1.05, 2.5, 0.0)]


def instrument(i, nfl=2, blank_names=False):
    suf = ['-H', '-A', ''][i % 3]
    fl = ['FL%d%s' % (k + 1, suf) for k in range(nfl)]
    if blank_names:               # channel names with a blank inside (e.g. "Pacific Blue-A")
        fl = ['Pacific Blue%s' % suf] + ['FL %d%s' % (k + 1, suf) for k in range(1, nfl)]
    return dict(id='INST%d' % (i + 1), fsc='FSC' + suf, ssc='SSC' + suf, fl=fl, time='Time' if i % 2 == 0 else 'TIME')


def bead_layout(inst, stream=0, container='int', n_events=120, n_pop=6, few=False, voltage_shift=0, linear_fl=False, res=None, flat_channels=()):
    spec = dict(n_pop=n_pop, ratio=3.0, cv=0.03, n_events=n_events, laws=(BEAD_LAWS * 4)[:len(inst['fl'])], blank=False, saturated=None,
                container=container, stream=stream, order='shuffled', lead=250, trail=100, names=inst['fl'], res=res, flat_channels=tuple(flat_channels))
    if few:
        spec.update(n_events=20, lead=100, trail=50)
    lay, truth = beadsgen.bead_sample(spec)
    lay['names'] = [inst['fsc'], inst['ssc']] + list(inst['fl']) + [inst['time']]
    if voltage_shift:
        lay['extra'] = [('$TIMESTEP', '0.1')] + [('$P%dV' % (k + 3), str(500 + 25 * k + voltage_shift)) for k in range(len(inst['fl']))]
    return lay, truth


def cell_layout(inst, stream=0, container='int', n=900, negatives=False, voltage_shift=0, linear_fl=False, level=200.0, res=None, overrange=False, voltages=None, no_voltage=False, clock='ticks', scatter_neg_head=False):
    return beadsgen.cell_sample(dict(clock=clock, scatter_neg_head=scatter_neg_head, n=n, container=container, stream=stream, names=inst['fl'], fsc=inst['fsc'], ssc=inst['ssc'],
                                     time=inst['time'], negatives=negatives, voltage_shift=voltage_shift, linear_fl=linear_fl, level=level, res=res,
                                     overrange=overrange, voltages=voltages, no_voltage=no_voltage))


def write_fcs(path, lay):
    buf, _ = fcsgen.build(lay)
    os.makedirs(os.path.dirname(path), exist_ok=True)
    with open(path, 'wb') as f:
        f.write(buf)


def write_workbook(path, instruments, beads_rows, sample_rows, mef_channels_cols=None, unit_channels_cols=None, extra_cols=True, header_style='plain'):
    """rows are dicts; beads: id, inst, file, gate_fraction, cluster, mef {channel: str}, lot; samples: id, inst, beads, file,
    gate_fraction, units {channel: str}, strain"""
    wb = openpyxl.Workbook()
    ws = wb.active
    ws.title = 'Instruments'
    ws.append(['ID', 'Description', 'Forward Scatter Channel', 'Side Scatter Channel', 'Fluorescence Channels', 'Time Channel'])
    for i in instruments:
        ws.append([i['id'], 'generated cytometer', i['fsc'], i['ssc'], ', '.join(i['fl']), i['time']])
    ws = wb.create_sheet('Beads')
    mcols = mef_channels_cols
    if mcols is None:
        mcols = []
        for r in beads_rows:
            for ch in r.get('mef', {}):
                if ch not in mcols:
                    mcols.append(ch)
    ws.append(['ID', 'Instrument ID', 'File Path'] + (['Beads Lot'] if extra_cols else []) + ['%s MEF Values' % ch for ch in mcols] +
              ['Gate Fraction', 'Clustering Channels'])
    for r in beads_rows:
        ws.append([r['id'], r['inst'], r['file']] + ([r.get('lot', 'LOT1')] if extra_cols else []) +
                  [r.get('mef', {}).get(ch) for ch in mcols] + [r['gate_fraction'], r['cluster']])
    ws = wb.create_sheet('Samples')
    ucols = unit_channels_cols
    if ucols is None:
        ucols = []
        for r in sample_rows:
            for ch in r.get('units', {}):
                if ch not in ucols:
                    ucols.append(ch)
    # the documented header pattern allows any blanks between the channel name and the word Units, and around the whole header
    uh = (lambda ch, k: '%s Units' % ch) if header_style == 'plain' else (lambda ch, k: ['%s  Units ', ' %s Units', '%s   Units'][k % 3] % ch)
    ws.append(['ID', 'Instrument ID', 'Beads ID', 'File Path'] + [uh(ch, k) for k, ch in enumerate(ucols)] + ['Gate Fraction'] +
              (['Strain', 'Inducer (uM)'] if extra_cols else []))
    for k, r in enumerate(sample_rows):
        ws.append([r['id'], r['inst'], r.get('beads'), r['file']] + [r.get('units', {}).get(ch) for ch in ucols] + [r['gate_fraction']] +
                  ([r.get('strain', 'strain %d' % k), 0.5 * k] if extra_cols else []))
    wb.save(path)
    return mcols, ucols


def mef_string(truth, ci, unknown=()):
    vals = []
    for j, v in enumerate(truth['mef'][ci]):
        vals.append('None' if j in unknown else str(int(v)))
    return ', '.join(vals)
