"""Independent FCS writer and reference reader (no NumPy, shares no code with FlowCal.io).

build(layout) -> bytes, info
refread(bytes) -> {'version', 'text', 'analysis', 'events', 'kind'} or raises RefError

layout keys (all optional except bits/events):
  version   'FCS2.0' | 'FCS3.0' | 'FCS3.1'
  datatype  'I' | 'F' | 'D' | 'A'
  mode      'L' (default) | 'H' | 'C' | 'U'
  byteord   '4,3,2,1' | '2,1' | '1,2,3,4' | '1,2' | anything (refused kinds)
  bits      [w1, ..., wD]
  ranges    [R1, ..., RD]  ($PnR, ints; default 2**w)
  names     [n1, ..., nD]
  events    list of rows; ints for 'I', and for 'F'/'D' *bit patterns* (ints) so that NaN
            payloads, -0.0 and subnormals are compared exactly
  offsets   'header' (default) | 'text' (3.x: HEADER data offsets 0, TEXT carries them)
  end       'last' (default) | 'onepast'
  pad       bytes of padding between segments (default 0)
  offset_format  how the offset keywords of TEXT are written in their 8-column fields: 'zero' (00001234), 'left' ('1234    '), 'right' ('    1234')
  pad_before  {segment name: extra bytes of padding in front of that segment} (e.g. {'data': 10**7}: offsets filling all 8 HEADER columns)
  delim     default '/'
  extra     ordered list of (keyword, value) added to the primary TEXT
  stext     list of (k, v) for a supplemental TEXT segment, or None
  stext_pos 'after' (default: after DATA) | 'before'
  stext_raw  the supplemental segment as a raw string (overrides stext; may be ill-formed)
  analysis_raw  the ANALYSIS segment as a raw string (overrides analysis; may be ill-formed)
  stext_zero_length  with an empty stext_raw: declare a window of no bytes (end = begin - 1) instead of offsets 0, 0
  analysis  list of (k, v) or None; analysis_pos 'after'; analysis_offsets 'header' | 'text'
  tot, par  overrides of the declared $TOT / $PAR (for corruption)
"""
import math
import struct

from . import textref


class RefError(Exception):
    pass


BIG = ('4,3,2,1', '2,1')
LITTLE = ('1,2,3,4', '1,2')


def mask_bits(R):
    """Number of low bits implied by a declared range R (integer arithmetic)."""
    return max(int(R) - 1, 0).bit_length()


def encode_events(layout):
    dt = layout.get('datatype', 'I')
    bo = layout.get('byteord', '4,3,2,1')
    order = 'big' if bo in BIG or bo not in LITTLE else 'little'
    out = bytearray()
    for row in layout['events']:
        for w, v in zip(layout['bits'], row):
            out += int(v).to_bytes(w // 8, order)
    return bytes(out)


def expected_events(layout):
    """What a correct reader returns: ints masked to the declared range; float bit patterns."""
    dt = layout.get('datatype', 'I')
    bits = layout['bits']
    ranges = layout.get('ranges') or [2 ** w for w in bits]
    if dt == 'I':
        return [[int(v) & ((1 << mask_bits(R)) - 1) for v, R in zip(row, ranges)]
                for row in layout['events']]
    return [[int(v) for v in row] for row in layout['events']]


_STYLE = ['zero']


def _num(n, width=8):
    """offset value in a fixed-width field: zero-padded (default), blank-padded on the right ('left') or on the left ('right')"""
    if _STYLE[0] == 'left':
        return '%-*d' % (width, n)
    if _STYLE[0] == 'right':
        return '%*d' % (width, n)
    return ('%0*d' % (width, n))


def build(layout):
    _STYLE[0] = layout.get('offset_format', 'zero')
    try:
        return _build(layout)
    finally:
        _STYLE[0] = 'zero'


def _build(layout):
    version = layout.get('version', 'FCS3.0')
    dt = layout.get('datatype', 'I')
    bits = list(layout['bits'])
    D = len(bits)
    ranges = list(layout.get('ranges') or [2 ** w for w in bits])
    names = list(layout.get('names') or ['CH%d' % (i + 1) for i in range(D)])
    events = layout['events']
    d = layout.get('delim', '/')
    pad = layout.get('pad', 0)
    v3 = version in ('FCS3.0', 'FCS3.1')
    data = encode_events(layout)
    onepast = layout.get('end', 'last') == 'onepast'

    kv = []
    if v3:
        kv += [('$BEGINANALYSIS', None), ('$ENDANALYSIS', None),
               ('$BEGINSTEXT', None), ('$ENDSTEXT', None),
               ('$BEGINDATA', None), ('$ENDDATA', None)]
    kv += [('$BYTEORD', layout.get('byteord', '4,3,2,1')),
           ('$DATATYPE', dt), ('$MODE', layout.get('mode', 'L')), ('$NEXTDATA', '0'),
           ('$PAR', str(layout.get('par', D))), ('$TOT', str(layout.get('tot', len(events))))]
    pne = layout.get('pne') or ['0,0'] * D
    for i in range(D):
        kv += [('$P%dB' % (i + 1), str(bits[i])), ('$P%dE' % (i + 1), pne[i]),
               ('$P%dN' % (i + 1), names[i]), ('$P%dR' % (i + 1), str(ranges[i]))]
    drop = set(layout.get('drop', ()))
    kv = [(k, v) for k, v in kv if k not in drop]
    kv += [(k, v) for k, v in layout.get('extra', [])]

    W = 8

    def text_bytes(vals):
        pairs = [(k, (vals.get(k, _num(0, W)) if v is None else v)) for k, v in kv]
        return textref.encode(pairs, d).encode('latin-1')

    tlen = len(text_bytes({}))           # all numeric fields have fixed width W
    stext = layout.get('stext')
    analysis = layout.get('analysis')
    sbytes = (textref.encode(stext, d, leading=layout.get('stext_leading', True))
              .encode('latin-1') if stext else b'')
    if layout.get('stext_raw') is not None:          # the bytes of the supplemental segment as given (possibly ill-formed)
        sbytes = layout['stext_raw'].encode('latin-1')
    abytes = (textref.encode(analysis, d, leading=layout.get('analysis_leading', True))
              .encode('latin-1') if analysis else b'')
    if layout.get('analysis_raw') is not None:       # the bytes of the ANALYSIS segment as given (possibly ill-formed)
        abytes = layout['analysis_raw'].encode('latin-1')

    order = layout.get('seg_order')
    if order is None:
        order = ['text'] + (['stext'] if layout.get('stext_pos', 'after') == 'before' else []) + ['data'] + \
                (['stext'] if layout.get('stext_pos', 'after') == 'after' else []) + ['analysis']
    assert sorted(set(order) | {'stext', 'analysis'}) == ['analysis', 'data', 'stext', 'text'] and len(set(order)) == len(order)
    pos = 58 + pad
    segs = []
    text_begin = text_end = None
    stext_begin = stext_end = 0
    an_begin = an_end = 0
    pad_before = layout.get('pad_before') or {}
    for seg in order:
        pos += pad_before.get(seg, 0)
        if seg == 'text':
            text_begin = pos
            text_end = pos + tlen - 1
            segs.append((pos, None))
            pos = text_end + 1 + pad
        elif seg == 'stext' and (sbytes or layout.get('stext_zero_length')):
            # (stext_zero_length: a declared supplemental window holding no byte at all, end = begin - 1)
            stext_begin, stext_end = pos, pos + len(sbytes) - 1
            if sbytes:
                segs.append((pos, sbytes))
            pos = stext_end + 1 + pad
        elif seg == 'data':
            data_begin = pos
            data_end_true = pos + len(data) - 1
            data_end = data_end_true + (1 if onepast else 0)
            segs.append((pos, data))
            pos = data_end_true + 1 + pad
        elif seg == 'analysis' and abytes:
            an_begin, an_end = pos, pos + len(abytes) - 1
            segs.append((pos, abytes))
            pos = an_end + 1 + (pad if seg != order[-1] else 0)
    vals = {}
    if v3:
        vals['$BEGINSTEXT'], vals['$ENDSTEXT'] = _num(stext_begin, W), _num(stext_end, W)
        vals['$BEGINDATA'], vals['$ENDDATA'] = _num(data_begin, W), _num(data_end, W)
        if layout.get('analysis_offsets', 'header') == 'text' or layout.get('analysis_in_text', True):
            vals['$BEGINANALYSIS'], vals['$ENDANALYSIS'] = _num(an_begin, W), _num(an_end, W)
    tbytes = text_bytes(vals)
    assert len(tbytes) == tlen
    hdr_data = (data_begin, data_end)
    if layout.get('offsets', 'header') == 'text':
        if not v3:
            raise ValueError('TEXT-only offsets need FCS3.x')
        hdr_data = (0, 0)
    hdr_an = (an_begin, an_end)
    if layout.get('analysis_offsets', 'header') == 'text':
        hdr_an = (0, 0)
    header = ('%-10s' % version).encode('ascii')
    for x in (text_begin, text_end) + hdr_data:
        header += ('%8d' % x).encode('ascii')
    if abytes or layout.get('analysis_zero_fields', False):
        for x in hdr_an:
            header += ('%8d' % x).encode('ascii')
    else:
        header += b' ' * 16 if layout.get('analysis_blank', True) else b'%8d%8d' % (0, 0)
    assert len(header) == 58
    out = bytearray(header)
    for p, b in segs:
        if b is None:
            b = tbytes
        if len(out) < p:
            out += b' ' * (p - len(out))
        assert len(out) == p, (len(out), p)
        out += b
    info = dict(text_begin=text_begin, text_end=text_end, data_begin=data_begin,
                data_end=data_end, data_len=len(data), stext=(stext_begin, stext_end),
                analysis=(an_begin, an_end), length=len(out),
                primary_pairs=[(k, (vals.get(k, _num(0, W)) if v is None else v)) for k, v in kv])
    return bytes(out), info


# --------------------------------------------------------------------------------------
# reference reader


def _int(s, what):
    try:
        return int(s)
    except Exception:
        raise RefError('bad integer in %s: %r' % (what, s))


def _segment(buf, b, e, what, strict=True):
    """bytes b..e inclusive; one-byte end tolerance (e may point one past the last byte)."""
    if b < 0 or e < b - 1:
        raise RefError('%s offsets inconsistent (%d, %d)' % (what, b, e))
    need = e + 1 - b
    have = max(0, min(len(buf), e + 1) - b)
    if have < need - 1:
        raise RefError('%s cut short: need %d have %d' % (what, need, have))
    return buf[b:b + have], need - have   # missing = 0 or 1


def refread(buf, tolerant=False):
    """Strict, independent reading of a whole file (tolerant=True: TEXT-like segments with the one tolerated ill-formed ending
    are read as a reader announcing it with a warning may read them).  Raises RefError when the file is not a
    well-formed list-mode file of a supported layout whose declared sizes match the bytes
    present (one-past end convention tolerated)."""
    _parse = textref.parse_tolerant if tolerant else textref.parse
    if len(buf) < 58:
        raise RefError('HEADER cut short')
    version = buf[:10].decode('latin-1').rstrip()
    f = [buf[10 + 8 * i:18 + 8 * i].decode('latin-1') for i in range(6)]
    tb, te, db, de = [_int(x, 'HEADER') for x in f[:4]]
    ab = 0 if f[4] == ' ' * 8 else _int(f[4], 'HEADER')
    ae = 0 if f[5] == ' ' * 8 else _int(f[5], 'HEADER')
    traw, miss = _segment(buf, tb, te, 'TEXT')
    traw = traw.decode('latin-1')
    if not traw:
        raise RefError('empty TEXT')
    d = traw[0]
    try:
        text = _parse(traw, d)
    except textref.Reject as e:
        raise RefError('TEXT rejected: %s' % e)
    v3 = version in ('FCS3.0', 'FCS3.1')

    def req(k):
        if k not in text:
            raise RefError('missing ' + k)
        return text[k]
    if v3:
        sb, se = _int(req('$BEGINSTEXT'), 'stext'), _int(req('$ENDSTEXT'), 'stext')
        if sb and se:
            sraw, _ = _segment(buf, sb, se, 'STEXT')
            try:
                text.update(_parse(sraw.decode('latin-1'), d, True))
            except textref.Reject as e:
                raise RefError('STEXT rejected: %s' % e)
    if req('$MODE') != 'L':
        raise RefError('mode')
    dt = req('$DATATYPE')
    if dt not in ('I', 'F', 'D'):
        raise RefError('datatype')
    D = _int(req('$PAR'), '$PAR')
    bits = [_int(req('$P%dB' % i), '$PnB') for i in range(1, D + 1)]
    if dt == 'I' and any(b % 8 or b > 64 or b < 0 for b in bits):
        raise RefError('bit widths')
    if dt == 'F' and any(b != 32 for b in bits):
        raise RefError('float widths')
    if dt == 'D' and any(b != 64 for b in bits):
        raise RefError('double widths')
    bo = req('$BYTEORD')
    if bo in BIG:
        order = 'big'
    elif bo in LITTLE:
        order = 'little'
    else:
        raise RefError('byteord')
    _int(req('$NEXTDATA'), '$NEXTDATA')
    analysis = {}
    analysis_status = 'none'
    if not (ab and ae) and v3:
        ab, ae = _int(req('$BEGINANALYSIS'), 'an'), _int(req('$ENDANALYSIS'), 'an')
    if ab and ae:
        try:
            araw, _ = _segment(buf, ab, ae, 'ANALYSIS')
            analysis = _parse(araw.decode('latin-1'), d, True)
            analysis_status = 'ok'
        except (RefError, textref.Reject):
            analysis, analysis_status = {}, 'unparseable'
    ranges = []
    for i in range(1, D + 1):
        try:
            ranges.append(float(req('$P%dR' % i)))
        except ValueError:
            raise RefError('$PnR')
    N = _int(req('$TOT'), '$TOT')
    if not (db and de):
        if not v3:
            raise RefError('no DATA offsets')
        db, de = _int(req('$BEGINDATA'), 'data'), _int(req('$ENDDATA'), 'data')
        if not (db and de):
            raise RefError('no DATA offsets')
    rowbytes = sum(b // 8 for b in bits)
    size = N * rowbytes
    if N < 0 or D <= 0:
        raise RefError('negative counts')
    if size != de + 1 - db and size != de - db:
        raise RefError('DATA size mismatch')
    if db + size > len(buf):
        raise RefError('DATA cut short')
    raw = buf[db:db + size]
    events = []
    p = 0
    for _ in range(N):
        row = []
        for b, R in zip(bits, ranges):
            v = int.from_bytes(raw[p:p + b // 8], order)
            p += b // 8
            if dt == 'I':
                if R < 1 or R != R or R == float('inf'):
                    raise RefError('$PnR value')
                v &= (1 << mask_bits(int(R) if R == int(R) else int(math.ceil(R)))) - 1
            row.append(v)
        events.append(row)
    return dict(version=version, text=text, analysis=analysis, events=events, kind=dt,
                analysis_status=analysis_status, D=D)


def float_bits(x, dt):
    return struct.unpack('>I' if dt == 'F' else '>Q', struct.pack('>f' if dt == 'F' else '>d', x))[0]
