"""E2: explicit-state breadth-first search over call histories of real objects.

A state is the event history that produced it; the object is rebuilt from a fresh root by
replaying the history (live FCSData objects do not copy reliably, and a buggy operation may
alias its input).  `canon` gives the hashable fingerprint used for de-duplication; `check`
evaluates the invariant / reference-model comparison on every transition.
"""
import hashlib


def digest(fingerprint):
    return hashlib.sha1(repr(fingerprint).encode('latin-1', 'replace')).hexdigest()[:16]


def search(build, events, check, canon, expandable, max_depth, roots=((),), stats=None):
    """build(history) -> state object (fresh); events(state, depth) -> iterable of events;
    check(history, event, state_before, result) -> None (records violations itself) and
    returns the successor state object or None when the event produced no state;
    canon(state) -> hashable; expandable(state) -> bool.
    Returns dict(states=set of digests, transitions=int, depth=int, frontier_sizes=[...])."""
    st = stats if stats is not None else {}
    seen = set()
    frontier = []
    for r in roots:
        s = build(r)
        if s is None:
            continue
        k = digest(canon(s))
        if k not in seen:
            seen.add(k)
            frontier.append(tuple(r))
    transitions = 0
    sizes = [len(frontier)]
    depth_done = 0
    for depth in range(max_depth):
        nxt = []
        for hist in frontier:
            state = build(hist)
            for ev in events(state, depth):
                transitions += 1
                succ = check(hist, ev, state)
                if succ is None:
                    continue
                k = digest(canon(succ))
                if k in seen:
                    continue
                seen.add(k)
                if expandable(succ) and depth + 1 < max_depth:
                    nxt.append(hist + (ev,))
        frontier = nxt
        sizes.append(len(frontier))
        depth_done = depth + 1
        if not frontier:
            break
    st.update(states=seen, transitions=transitions, depth=depth_done, frontier_sizes=sizes)
    return st


def _selftest():
    # toy: a counter object with a planted aliasing bug reachable only at depth 2 from a
    # non-initial state: 'dup' after 'inc' shares the list.
    class Obj(object):
        def __init__(self):
            self.v = [0]

    def build(hist):
        o = Obj()
        for ev in hist:
            o = apply(o, ev)
        return o

    def apply(o, ev):
        n = Obj()
        if ev == 'inc':
            n.v = [o.v[0] + 1]
        elif ev == 'dup':
            n.v = o.v if o.v[0] == 1 else list(o.v)      # planted: alias when value is 1
        return n
    found = []

    def check(hist, ev, state):
        n = apply(state, ev)
        if n.v is state.v:
            found.append(hist + (ev,))
        return n
    st = search(build, lambda s, d: ['inc', 'dup'], check, lambda s: tuple(s.v), lambda s: True, 1)
    assert not found
    st = search(build, lambda s, d: ['inc', 'dup'], check, lambda s: tuple(s.v), lambda s: True, 2)
    assert found == [('inc', 'dup')], found
    assert st['transitions'] == 2 + 2 and len(st['states']) == 3, st


_selftest()
