"""Synthetic bead and cell samples with a known generating law (C02, C10, C11, C15).

Everything is deterministic: a sample is a function of its descriptor (including the id of the
noise stream, a seed of numpy.random.RandomState used ONLY here, never the global RNG).
"""
import math

import numpy as np

from . import fcsgen

A0, A1, RES = 5.0, 1.0, 1024          # log amplifier of the integer container: 5 decades over 1024 channels


def ladder(n_pop, ratio, laws, blank, rfi_min=3.0):
    """per channel: target RFI means and the MEF values that the law assigns to them.
    laws: list of (m, b, auto).  Returns rfi[c][j], mef[c][j] (mef rounded to integers, rfi recomputed)."""
    rfi, mef = [], []
    for (m, b, auto) in laws:
        r, f = [], []
        for j in range(n_pop):
            if blank and j == 0:
                f.append(0)
                # a blank bead fluoresces with the autofluorescence only
                r.append(math.exp((math.log(auto) - b) / m) if auto > 0 else None)
                continue
            jj = j - (1 if blank else 0)
            x = rfi_min * ratio ** jj * (1.0 if not blank else ratio)
            v = int(round(math.exp(m * math.log(x) + b) - auto))
            f.append(v)
            r.append(math.exp((math.log(v + auto) - b) / m))
        rfi.append(r)
        mef.append(f)
    return rfi, mef


def to_channel(x, a0=A0, res=RES):
    """RFI -> channel number of the integer container (clipped to the detector range)"""
    if x <= 0:
        return 0
    c = res / a0 * math.log10(x / A1)
    return int(min(res - 1, max(0, round(c))))


def from_channel(c, a0=A0, res=RES):
    return A1 * 10 ** (a0 * c / res)


def bead_sample(spec):
    """spec keys: n_pop, ratio, cv, n_events (per population), laws [(m,b,auto)...], blank, saturated (None|'brightest'|'dimmest'),
    container ('int'|'float'), stream, lead (events added in front, trimmed by the Excel workflow), trail,
    names (fluorescence channel names), order ('shuffled'|'sorted'|'reversed'|'interleaved')
    Returns (layout, truth) with truth = dict(labels per event, rfi, mef, fl_names)."""
    rs = np.random.RandomState(1000003 * (spec.get('stream', 0) + 1) % (2 ** 31))
    a0 = float(spec.get('decades', A0))
    fres = list(spec.get('res') or [RES] * len(spec['laws']))
    n_pop, ratio, cv = spec['n_pop'], spec['ratio'], spec['cv']
    laws = spec['laws']
    nch = len(laws)
    blank = spec.get('blank', False)
    rfi, mef = ladder(n_pop, ratio, laws, blank, spec.get('rfi_min', 3.0))
    nev = spec['n_events']
    sat = spec.get('saturated')
    sigma = math.sqrt(math.log(1 + cv * cv))
    rows, labels = [], []
    nev_list = list(nev) if isinstance(nev, (list, tuple)) else [nev] * n_pop
    for j in range(n_pop):
        nev = nev_list[j]
        z = rs.normal(size=(nev, nch + 2))
        for i in range(nev):
            fl = []
            for c in range(nch):
                mu = rfi[c][j]
                if c in spec.get('flat_channels', ()):
                    mu = 40.0               # this channel does not resolve the populations at all
                if mu is None:
                    mu = 0.5            # blank without autofluorescence: bottom of the detector
                v = mu * math.exp(sigma * z[i, c])
                if (sat in ('brightest', 'two-brightest') and j == n_pop - 1) or (sat == 'two-brightest' and j == n_pop - 2):
                    v = 10 ** (a0 + 0.5)      # beyond the detector range: piles up at the upper limit
                if sat == 'dimmest' and j == 0:
                    v = 0.01                  # below the detector range: piles up at the lower limit
                fl.append(v)
            fsc = 400.0 * math.exp(0.05 * z[i, nch])
            ssc = 300.0 * math.exp(0.05 * z[i, nch + 1])
            rows.append([fsc, ssc] + fl)
            labels.append(j)
    order = spec.get('order', 'shuffled')
    idx = list(range(len(rows)))
    if order == 'shuffled':
        idx = list(rs.permutation(len(rows)))
    elif order == 'reversed':
        idx = idx[::-1]
    elif order == 'interleaved':
        idx = sorted(idx, key=lambda i: (i % nev_list[0], i // nev_list[0]))
    rows = [rows[i] for i in idx]
    labels = [labels[i] for i in idx]
    lead, trail = spec.get('lead', 0), spec.get('trail', 0)
    filler = lambda k: [[400.0 + (i % 7), 300.0 + (i % 5)] + [rfi[c][n_pop // 2] * (1 + 0.01 * (i % 3)) for c in range(nch)] for i in range(k)]
    rows = filler(lead) + rows + filler(trail)
    labels = [-1] * lead + labels + [-1] * trail
    names = ['FSC-H', 'SSC-H'] + list(spec.get('names') or ['FL%d-H' % (c + 1) for c in range(nch)]) + ['Time']
    D = nch + 3
    extra = [('$TIMESTEP', '0.1')] + [('$P%dV' % (k + 3), str(500 + 25 * k)) for k in range(nch)]
    if spec.get('container', 'int') == 'int':
        events = []
        for t, r in enumerate(rows):
            events.append([int(min(1023, max(0, round(r[0])))), int(min(1023, max(0, round(r[1]))))] +
                          [to_channel(v, a0, fres[k]) for k, v in enumerate(r[2:])] + [t])
        lay = dict(datatype='I', bits=[16] * (D - 1) + [32], ranges=[1024, 1024] + list(fres) + [2 ** 24], names=names,
                   pne=['0,0', '0,0'] + ['%g,%g' % (a0, A1)] * nch + ['0,0'], events=events, byteord='4,3,2,1', extra=extra)
        values = [[float(e[0]), float(e[1])] + [from_channel(c, a0, fres[k]) for k, c in enumerate(e[2:2 + nch])] for e in events]
    else:
        events, values = [], []
        dtc = 'D' if spec.get('container') == 'double' else 'F'
        frange = int(spec.get('frange', 262144))        # declared range of the floating-point channels (e.g. 2**24 on some instruments)
        for t, r in enumerate(rows):
            vals = [float(np.float32(v)) if v < 10 ** (a0 + 0.4) else float(frange) * 2 for v in r]
            vals = [min(v, float(frange - 1)) for v in vals]
            events.append([fcsgen.float_bits(v, dtc) for v in vals] + [fcsgen.float_bits(float(t), dtc)])
            values.append(vals)
        lay = dict(datatype=dtc, bits=[32 if dtc == 'F' else 64] * D, ranges=[frange] * D, names=names, pne=['0,0'] * D, events=events,
                   byteord='1,2,3,4', extra=extra)
    truth = dict(labels=labels, rfi=rfi, mef=mef, fl_names=names[2:2 + nch], values=values, n_pop=n_pop)
    return lay, truth


def cell_sample(spec):
    """spec: n (events), container, stream, names (fluorescence), level (RFI of the cells), negatives (float only), instrument names
    Returns layout.  Events 0..249 and the last 100 are ordinary events too (the workflow trims them)."""
    rs = np.random.RandomState(7000003 * (spec.get('stream', 0) + 1) % (2 ** 31))
    n = spec.get('n', 900)
    fl_names = list(spec.get('names') or ['FL1-H', 'FL2-H'])
    nch = len(fl_names)
    cres = list(spec.get('res') or [RES] * nch)
    z = rs.normal(size=(n, nch + 2))
    u = rs.uniform(size=n)
    rows = []
    for i in range(n):
        if u[i] < 0.8:
            fsc, ssc = 400.0 * math.exp(0.08 * z[i, nch]), 300.0 * math.exp(0.08 * z[i, nch + 1])
        else:
            fsc, ssc = 30.0 + 900 * rs.uniform(), 20.0 + 900 * rs.uniform()
        fl = [spec.get('level', 200.0) * (c + 1) * math.exp(0.35 * z[i, c]) for c in range(nch)]
        rows.append([fsc, ssc] + fl)
    # saturated and zero events, spread over the file
    for k, i in enumerate(range(260, n - 110, max(1, (n - 370) // 12))):
        if k % 4 == 0:
            rows[i][0] = 5000.0
        elif k % 4 == 1:
            rows[i][2] = 10 ** (A0 + 1)
        elif k % 4 == 2:
            rows[i][2 + (nch - 1)] = 0.0
        else:
            rows[i][1] = 0.0
    names = [spec.get('fsc', 'FSC-H'), spec.get('ssc', 'SSC-H')] + fl_names + [spec.get('time', 'Time')]
    D = nch + 3
    extra = [('$TIMESTEP', '0.1')] + [('$P%dV' % (k + 3), str(500 + 25 * k)) for k in range(nch)]
    if spec.get('voltage_shift'):
        extra = [('$TIMESTEP', '0.1')] + [('$P%dV' % (k + 3), str(500 + 25 * k + spec['voltage_shift'])) for k in range(nch)]
    if spec.get('voltages'):                 # detector voltage per fluorescence parameter, in file order
        extra = [('$TIMESTEP', '0.1')] + [('$P%dV' % (k + 3), str(v)) for k, v in enumerate(spec['voltages'])]
    if spec.get('no_voltage'):               # the optional $PnV keywords are not recorded at all
        extra = [('$TIMESTEP', '0.1')]
    # how the file records time: 'ticks' (time channel counting up, the default), 'flat' (every event in the same tick: 0 s),
    # 'btim-equal' / 'btim' (no time step; start and end time keywords, equal or 100 s apart), 'none' (no time information at all)
    clock = spec.get('clock', 'ticks')
    tick = (lambda t: t) if clock != 'flat' else (lambda t: 7)
    if clock in ('btim-equal', 'btim', 'none'):
        extra = [kv for kv in extra if kv[0] != '$TIMESTEP']
        if clock != 'none':
            extra += [('$DATE', '05-MAR-2021'), ('$BTIM', '10:00:00'), ('$ETIM', '10:00:00' if clock == 'btim-equal' else '10:01:40')]
    if spec.get('container', 'int') == 'int':
        events = []
        for t, r in enumerate(rows):
            events.append([int(min(1023, max(0, round(r[0])))), int(min(1023, max(0, round(r[1]))))] +
                          [to_channel(v, A0, cres[k]) for k, v in enumerate(r[2:])] + [tick(t)])
        pne_fl = '%g,%g' % (A0, A1) if not spec.get('linear_fl') else '0,0'
        pnes = [pne_fl] * nch
        if spec.get('linear_fl') == 'second':           # only the second fluorescence channel has a linear amplifier
            pnes = ['%g,%g' % (A0, A1)] * nch
            pnes[1] = '0,0'
        lay = dict(datatype='I', bits=[16] * (D - 1) + [32], ranges=[1024, 1024] + list(cres) + [2 ** 24], names=names,
                   pne=['0,0', '0,0'] + pnes + ['0,0'], events=events, byteord='4,3,2,1', extra=extra)
    else:
        events = []
        dtc = 'D' if spec.get('container') == 'double' else 'F'
        for t, r in enumerate(rows):
            vals = [min(float(np.float32(v)), 262143.0) for v in r]
            if spec.get('negatives') and t % 9 == 0:
                vals[2] = -abs(vals[2]) * 0.01 - 1.0
            if spec.get('scatter_neg_head') and (t in (3, 120) or t == len(rows) - 20):
                # strongly negative scatter values among the events that the workflow discards first (the first 250 and the last 100)
                vals[0], vals[1] = -4000.0 - t, -2500.0 - t
            if spec.get('overrange') and t % 37 == 11 and len(vals) > 3:
                vals[3] = float('nan')              # an event without a value in the second fluorescence channel (floating-point files may hold NaN)
            if spec.get('overrange') and t % 11 == 5:
                vals[t % 2] = 300000.0 + t          # a scatter value beyond the declared range (floating-point files are not clipped)
            events.append([fcsgen.float_bits(v, dtc) for v in vals] + [fcsgen.float_bits(float(tick(t)), dtc)])
        lay = dict(datatype=dtc, bits=[32 if dtc == 'F' else 64] * D, ranges=[262144] * D, names=names, pne=['0,0'] * D, events=events,
                   byteord='1,2,3,4', extra=extra)
    return lay
