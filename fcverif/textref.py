"""Independent left-to-right reference tokenizer for FCS TEXT-like segments (C14, C16).

Shares no code with FlowCal.io.read_fcs_text_segment (which scans backwards over a split list).

Rule (FCS 2.0/3.0/3.1): the segment is  d k1 d v1 d k2 d v2 d ...  where d is the delimiter;
keywords and values are non-empty, must not start with d, and a literal d inside them is
written twice.  Documented reader tolerances: bytes after the last delimiter are ignored; a
supplemental segment need not start with the delimiter.
"""


class Reject(Exception):
    pass


ACCEPT, REJECT, TOLERATED = 'accept', 'reject', 'tolerated'


def tokenize(s, d, supplemental=False):
    """Return (status, tokens, tolerated_tokens).

    status ACCEPT: tokens is the exact token list (even length checked by the caller).
    status TOLERATED: the string ends in an even delimiter run right after a token (the one
      ill-formed ending a reader may accept with a warning); tolerated_tokens is the token
      list of the string without its final delimiter.
    status REJECT otherwise.
    """
    if s == '':
        return ACCEPT, [], None
    if not supplemental and s[0] != d:
        return REJECT, None, None
    last = s.rfind(d)
    if last < 0:
        # supplemental without any delimiter: everything is "after the last delimiter"
        return ACCEPT, [], None
    s = s[:last + 1]
    i = 0
    n = len(s)
    if s[0] == d:
        i = 1                      # leading delimiter (optional for supplemental)
    tokens = []
    cur = None                     # None: at a token start
    while i < n:
        if s[i] != d:
            j = i
            while j < n and s[j] != d:
                j += 1
            cur = (cur or '') + s[i:j]
            i = j
            continue
        # a run of delimiters
        j = i
        while j < n and s[j] == d:
            j += 1
        run = j - i
        if cur is None:
            # token would start with the delimiter / be empty
            return REJECT, None, None
        if run % 2 == 1:
            tokens.append(cur + d * (run // 2))
            cur = None
        else:
            cur = cur + d * (run // 2)
            if j == n:
                # even run at the very end, in the middle of a token: tolerated ending
                st, tt, _ = tokenize(s[:-1], d, supplemental)
                if st == ACCEPT:
                    return TOLERATED, None, tt
                return REJECT, None, None
        i = j
    if cur is not None:
        # cannot happen: s ends with a delimiter
        return REJECT, None, None
    return ACCEPT, tokens, None


def parse(s, d, supplemental=False):
    """dict of the pairs, or raise Reject.  TOLERATED endings raise Reject here."""
    st, tokens, _ = tokenize(s, d, supplemental)
    if st != ACCEPT:
        raise Reject(st)
    if len(tokens) % 2:
        raise Reject('odd')
    out = {}
    for k, v in zip(tokens[0::2], tokens[1::2]):
        out[k] = v
    return out


def parse_tolerant(s, d, supplemental=False):
    """like parse, but the one tolerated ill-formed ending (an even delimiter run right after a token) is read as the string
    without its final delimiter -- the reading a reader may take when it announces it with a warning"""
    st, tokens, tt = tokenize(s, d, supplemental)
    if st == TOLERATED:
        tokens = tt
    elif st != ACCEPT:
        raise Reject(st)
    if tokens is None or len(tokens) % 2:
        raise Reject('odd')
    out = {}
    for k, v in zip(tokens[0::2], tokens[1::2]):
        out[k] = v
    return out


def encode(pairs, d, leading=True, trailing=True):
    """Write pairs (list of (k, v)) by the escaping rule."""
    esc = lambda t: t.replace(d, d + d)
    s = d if leading else ''
    parts = []
    for k, v in pairs:
        parts.append(esc(k))
        parts.append(esc(v))
    s += d.join(parts)
    if trailing and parts:
        s += d
    return s


def _selftest():
    assert parse('/a/b/', '/') == {'a': 'b'}
    assert parse('/a//b/c/', '/') == {'a/b': 'c'}
    assert parse('/a///b/', '/') == {'a/': 'b'}
    assert parse('/a/b///', '/') == {'a': 'b/'}
    assert tokenize('/a/b//', '/')[0] == TOLERATED
    assert tokenize('/a/b//', '/')[2] == ['a', 'b']
    assert tokenize('//a/b/', '/')[0] == REJECT
    assert tokenize('/a/', '/')[0] == ACCEPT and len(tokenize('/a/', '/')[1]) == 1
    assert parse('a/b/', '/', True) == {'a': 'b'}
    assert parse('/a/b/junk', '/') == {'a': 'b'}
    assert parse('junk', '/', True) == {}
    assert tokenize('a/b', '/')[0] == REJECT
    assert encode([('a/', 'b')], '/') == '/a///b/'
    assert parse(encode([('a/', '/b'.lstrip('/') + '/')], '/'), '/') == {'a/': 'b/'}


_selftest()
