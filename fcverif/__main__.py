import argparse
import os
import sys


def main():
    ap = argparse.ArgumentParser(prog='check')
    ap.add_argument('property')
    ap.add_argument('--tier', default=os.environ.get('VERIF_TIER', 'quick'),
                    choices=['quick', 'thorough'])
    ap.add_argument('--seed', type=int, default=int(os.environ.get('VERIF_SEED', '0') or 0))
    ap.add_argument('--replay')
    ap.add_argument('--json', action='store_true')
    ap.add_argument('--workers', type=int)
    a = ap.parse_args()
    from fcverif import runner
    pid = a.property.upper()
    try:
        if a.replay:
            rc = runner.replay(pid, a.replay, a.json)
        else:
            rc = runner.run(pid, a.tier, a.seed, a.workers)
    except SystemExit:
        raise
    except BaseException:
        # a failure of the machinery itself (not of the code under test) is never reported as exit 1: that code is reserved for violations
        import traceback
        traceback.print_exc()
        print('HARNESS-ERROR: the check itself failed before reaching a verdict')
        sys.exit(3)
    sys.exit(rc)


main()
