"""Reference logicle (biexponential) display transform in the math module (C18, C19).

x(s) = T * 10**-(M-W) * (10**(s-W) - p**2 * 10**(-(s-W)/p) + p**2 - 1),  W = 2 p log10(p) / (p + 1)
p is found by bisection; x(s) is evaluated with expm1 so that the p**2 terms do not cancel.
"""
import math

LN10 = math.log(10.0)


def p_of_W(W):
    if W < 0:
        raise ValueError('W < 0')
    if W == 0:
        return 1.0
    f = lambda p: 2.0 * p * math.log10(p) / (p + 1.0) - W
    lo, hi = 1.0, 10.0 ** W + 10.0
    assert f(lo) < 0 <= f(hi)
    for _ in range(300):
        mid = 0.5 * (lo + hi)
        if f(mid) < 0:
            lo = mid
        else:
            hi = mid
        if hi - lo <= 1e-16 * hi:
            break
    return 0.5 * (lo + hi)


def biexp(s, T, M, W, p=None):
    p = p_of_W(W) if p is None else p
    u = s - W
    # 10**u - 1  +  p^2 (1 - 10**(-u/p))
    body = math.expm1(u * LN10) + p * p * (-math.expm1(-u / p * LN10))
    return T * 10.0 ** (-(M - W)) * body


def derived_M(T):
    return max(4.5, 4.5 / math.log10(262144) * math.log10(T))


def derived_W(T, M, rmin):
    """rmin: most negative event or None"""
    if rmin is None or rmin >= 0:
        return 0.0
    return max(0.0, (M - math.log10(T / abs(rmin))) / 2.0)


def _selftest():
    assert p_of_W(0) == 1.0
    p = p_of_W(0.5)
    assert abs(2 * p * math.log10(p) / (p + 1) - 0.5) < 1e-14
    # x(W) = 0, x(M) ~ T for W << M
    assert biexp(0.5, 262144, 4.5, 0.5) == 0.0
    assert abs(biexp(4.5, 262144, 4.5, 0.0) / 262144 - 1) < 1e-3
    # W = 0: x(s) = T 10^-M (10^s - 10^-s)
    for s in (0.3, 1.0, 4.5):
        assert abs(biexp(s, 1000.0, 4.5, 0.0) - 1000.0 * 10 ** -4.5 * (10 ** s - 10 ** -s)) < 1e-9 * 1000


_selftest()
