"""E1 helpers: complete products and deviation-bounded enumeration (no sampling)."""
import itertools
import math


def product(dims):
    """dims: list of (name, values).  Yields dicts for the complete product."""
    names = [n for n, _ in dims]
    for combo in itertools.product(*[v for _, v in dims]):
        yield dict(zip(names, combo))


def deviations(dims, k):
    """All assignments that differ from the default (first value of every dimension) in at
    most k dimensions, ordered by number of deviations (0, then 1, ...), each exactly once."""
    names = [n for n, _ in dims]
    default = {n: v[0] for n, v in dims}
    alts = {n: list(v[1:]) for n, v in dims}
    for r in range(0, k + 1):
        for sub in itertools.combinations(names, r):
            for combo in itertools.product(*[alts[n] for n in sub]):
                c = dict(default)
                c.update(zip(sub, combo))
                c['_dev'] = r
                yield c


def count_deviations(dims, k):
    sizes = [len(v) - 1 for _, v in dims]
    tot = 0
    for r in range(0, k + 1):
        for sub in itertools.combinations(sizes, r):
            tot += math.prod(sub)
    return tot


def _selftest():
    dims = [('a', [0, 1, 2]), ('b', ['x', 'y']), ('c', [None, 1, 2, 3])]
    for k in range(4):
        got = list(deviations(dims, k))
        assert len(got) == count_deviations(dims, k)
        assert len({tuple(sorted((kk, str(v)) for kk, v in g.items() if kk != '_dev')) for g in got}) == len(got)
    assert len(list(deviations(dims, 3))) == 3 * 2 * 4
    # a fault reachable only with two deviations is found at bound 2, not at bound 1
    bad = lambda c: c['a'] == 2 and c['c'] == 3
    assert not any(bad(c) for c in deviations(dims, 1))
    assert sum(bad(c) for c in deviations(dims, 2)) == 1


_selftest()
