"""Canonical, hashable fingerprints of arrays, FCSData objects and containers (DESIGN 2.3)."""
import datetime
import struct

import numpy as np


def fbits(x):
    """float -> bit pattern (so that -0.0 / NaN payloads / 1-ulp differences are visible)."""
    if x is None:
        return None
    if isinstance(x, (bool, np.bool_)):
        return ('b', bool(x))
    if isinstance(x, (int, np.integer)):
        return ('i', int(x))
    if isinstance(x, (float, np.floating)):
        return ('f', struct.pack('>d', float(x)).hex())
    if isinstance(x, str):
        return ('s', x)
    if isinstance(x, (datetime.datetime, datetime.date, datetime.time, datetime.timedelta)):
        return ('t', repr(x))
    if isinstance(x, (list, tuple)):
        return (type(x).__name__,) + tuple(fbits(e) for e in x)
    if isinstance(x, dict):
        return ('d',) + tuple(sorted((repr(k), fbits(v)) for k, v in x.items()))
    if isinstance(x, np.ndarray):
        return arr(x)
    return ('r', repr(x))


def arr(a):
    a = np.asarray(a)
    if a.dtype == object:
        return ('objarr', a.shape, tuple(fbits(e) for e in a.ravel().tolist()))
    c = np.ascontiguousarray(a).astype(a.dtype.newbyteorder('='), copy=False)
    return ('arr', a.dtype.kind, a.dtype.itemsize, a.shape, c.tobytes())


META = ('infile', 'text', 'analysis', 'data_type', 'time_step', 'acquisition_start_time',
        'acquisition_end_time', 'channels')
PERCH = ('amplification_type', 'detector_voltage', 'amplifier_gain', 'channel_labels', 'range',
         'resolution')


def meta(d, with_range=True):
    """All metadata of an FCSData through the public accessors."""
    out = []
    for k in META:
        try:
            out.append((k, fbits(getattr(d, k))))
        except Exception as e:           # an accessor that no longer works on this object
            out.append((k, ('EXC', type(e).__name__)))
    for k in PERCH:
        if k == 'range' and not with_range:
            continue
        try:
            # asked for by POSITION, so that columns sharing a channel name keep their own entries
            n = len(d.channels)
            out.append((k, fbits(getattr(d, k)(list(range(n))) if n else getattr(d, k)())))
        except Exception as e:           # metadata not aligned with the shape
            out.append((k, ('EXC', type(e).__name__)))
    return tuple(out)


def broken(f):
    """names of the metadata accessors that raised when fingerprint f (of an FCSData) was taken"""
    if not (isinstance(f, tuple) and f and f[0] == 'FCSData'):
        return []
    return ['%s (%s)' % (k, v[1]) for k, v in f[2] if isinstance(v, tuple) and len(v) == 2 and v[0] == 'EXC']


def fp(x, with_range=True):
    import FlowCal
    if isinstance(x, FlowCal.io.FCSData):
        return ('FCSData', arr(x.view(np.ndarray)), meta(x, with_range))
    if isinstance(x, np.ndarray):
        return arr(x)
    if isinstance(x, (list, tuple)):
        return (type(x).__name__,) + tuple(fp(e, with_range) for e in x)
    if isinstance(x, dict):
        return ('dict',) + tuple(sorted((repr(k), fp(v, with_range)) for k, v in x.items()))
    return fbits(x)


def diff(a, b, path=''):
    """First difference between two fingerprints, as a short string."""
    if type(a) != type(b):
        return '%s: %r vs %r' % (path, type(a).__name__, type(b).__name__)
    if isinstance(a, tuple):
        if len(a) != len(b):
            return '%s: length %d vs %d' % (path, len(a), len(b))
        for i, (x, y) in enumerate(zip(a, b)):
            if x != y:
                tag = x[0] if isinstance(x, tuple) and x and isinstance(x[0], str) else i
                return diff(x, y, '%s/%s' % (path, tag))
        return None
    if a != b:
        sa, sb = repr(a), repr(b)
        return '%s: %s vs %s' % (path, sa[:80], sb[:80])
    return None
