"""C04 -- channel metadata stays aligned with columns under every indexing expression (E2)."""
import itertools
import os
import warnings

import numpy as np

from .. import fcsgen, bfs
from ..fingerprint import fp, fbits
from ..runner import Result, scratch

ID = 'C04'
LEVEL = 'model_checking'
ENGINE = 'E2'
TECHNIQUE = ('explicit-state breadth-first search over chains of indexing expressions applied to real FCSData '
             'objects (complete key alphabet at depth 1, reduced alphabet to depth 2/3, fingerprint de-duplication), '
             'each transition checked against a plain-ndarray reference model that indexes the values and a '
             'column-identity array with the translated key; __setitem__ over the same depth-1 alphabet')
RULE = ('a transition = one indexing expression applied to one reachable sample state; the depth-1 alphabet is the '
        'complete product rows x cols of the key grammar for the sample shape; deeper levels use one representative per '
        'key form; a state is the (values, metadata) fingerprint; non-trivial = the key selects a proper, non-empty '
        'subset or permutation of the cells')
ASSUMPTIONS = ['plain NumPy indexing of the translated key (names replaced by positions, tuples by lists) defines the selected cells',
               'flattening keys (2-D boolean masks) have no column axis; only their values are compared',
               'for results with three or more axes alignment means: some axis has one metadata entry per index and every cell '
               'along it comes from that column']
CHUNK = 1

SHAPES_Q = [(3, 3), (2, 2)]
SHAPES_T = [(3, 3), (2, 2), (1, 1), (4, 2), (2, 4)]

PNE = ['0,0', '4,1', '2,0.5', '3,0', '5,1']
PNR = [256, 1024, 4096, 512, 65536]
PNV = ['100', '250.5', '300', '420', '55']
PNG = ['1', '2.5', '8', '16', '0.5']


def make_sample(shape):
    import FlowCal
    N, D = shape
    events = [[(7 * i + 3 * j + 1) % 200 + j for j in range(D)] for i in range(N)]
    extra = []
    for j in range(D):
        extra += [('$P%dV' % (j + 1), PNV[j]), ('$P%dG' % (j + 1), PNG[j]), ('$P%dS' % (j + 1), 'label%d' % (j + 1))]
    lay = dict(datatype='I', bits=[16] * D, ranges=PNR[:D], pne=PNE[:D], events=events, byteord='1,2,3,4', extra=extra)
    p = os.path.join(scratch(), 'c04_%d_%d.fcs' % shape)
    if p not in _WRITTEN:
        buf, _ = fcsgen.build(lay)
        with open(p, 'wb') as f:
            f.write(buf)
        _WRITTEN.add(p)
    return FlowCal.io.FCSData(p)


_WRITTEN = set()


# ---------------------------------------------------------------------------------------
# key alphabet (python expressions, so that a replay file is self-contained)

def slices(n, full=True):
    out = []
    ab = [None, 0, 1, n, -1]
    ss = [None, 1, 2, -1]
    for a in ab:
        for b in ab:
            for s in ss:
                out.append('slice(%r,%r,%r)' % (a, b, s))
    seen, res = set(), []
    for o in out:
        if o not in seen:
            seen.add(o)
            res.append(o)
    return res if full else ['slice(None,None,None)', 'slice(1,None,None)', 'slice(None,None,-1)', 'slice(0,1,None)', 'slice(None,None,2)']


def row_keys(N, full=True):
    """(expr, class) with class 'g' grammar / 'o' other form"""
    ks = []
    ints = range(-N - 1, N + 1) if full else [0, -1, N]
    ks += [(repr(i), 'g') for i in ints]
    ks += [(s, 'g') for s in slices(N, full)]
    if full:
        idx = list(range(-N, N))
        ks += [('[]', 'g')] + [('[%d]' % i, 'g') for i in idx] + [('[%d, %d]' % (i, j), 'g') for i in idx for j in idx]
        ks += [('[%d]' % N, 'g'), ('[0, %d]' % (-N - 1), 'g')]
        for m in itertools.product([True, False], repeat=N):
            ks.append(('np.array(%r)' % (list(m),), 'g'))
            ks.append((repr(list(m)), 'g'))
        ks.append(('np.array(%r)' % ([True] * (N + 1),), 'g'))
    else:
        ks += [('[0]', 'g'), ('[-1, 0]', 'g'), ('np.array(%r)' % ([True] + [False] * (N - 1),), 'g'),
               (repr([False] + [True] * (N - 1)), 'g'), ('[]', 'g'), ('np.array(%r)' % ([False] * N,), 'g')]
    ks.append(('Ellipsis', 'g'))
    # an event position computed with NumPy (np.argmax, np.flatnonzero(...)[k]) is an integer too
    npi = ['np.int64(0)', 'np.intp(-1)', 'np.uint8(%d)' % (N - 1), 'np.int32(-%d)' % N, 'np.int16(%d)' % N, 'np.array([0, %d])[1]' % (N - 1)]
    ks += [(k, 'g') for k in (npi if full else npi[:3])]
    return ks


def col_keys(D, full=True):
    names = ['CH%d' % (j + 1) for j in range(D)]
    ks = []
    ints = list(range(-D - 1, D + 1)) if full else [0, -1, D]
    ks += [(repr(i), 'g') for i in ints]
    ks += [(repr(n), 'g') for n in (names if full else names[:1])] + [("'nope'", 'g')]
    # near misses of a real name are unknown names too (matching is exact)
    near = ["'CH1 '", "' CH1'", "'ch1'", "'CH'", "'CH11'", "''", "'CH1\\t'", "['CH1', 'CH2 ']", "('ch2', 0)",
            "'label1'", "['CH1', 'label%d']" % D, "('label1',)"]            # a channel LABEL ($PnS) is not a channel name
    ks += [(n, 'g') for n in (near if full else near[:3])]
    ks += [(s, 'g') for s in slices(D, full)]
    elems = [repr(n) for n in names] + [repr(i) for i in range(-D, D)]
    if full:
        ks += [('[]', 'g')]
        for br in ('[%s]', '(%s,)'):
            ks += [(br % e, 'g') for e in elems]
        for br in ('[%s, %s]', '(%s, %s)'):
            ks += [(br % (a, b), 'g') for a in elems for b in elems]
        if D >= 3:
            for perm in itertools.permutations(range(D), 3):
                ks.append(('[%s]' % ', '.join(repr(names[p]) if (p + k) % 2 else repr(p) for k, p in enumerate(perm)), 'g'))
        ks += [("['nope']", 'g'), ("[0, 'nope']", 'g'), ('[%d]' % D, 'g'), ('[0, %d]' % (-D - 1), 'g')]
    else:
        ks += [('[%s]' % elems[0], 'g'), ('[%s, %s]' % (elems[-1], elems[0]), 'g'), ('(%s, %s)' % (elems[0], elems[D]), 'g'),
               ('[%s, %s]' % (elems[0], elems[0]), 'g')]
        if D >= 3:
            ks.append(('[2, %r, 1]' % names[0], 'g'))
        ks += [('[]', 'g'), ('()', 'g'), ('slice(%d,None,None)' % D, 'g')]
    ks.append(('Ellipsis', 'g'))
    # other forms NumPy accepts
    other = []
    for m in itertools.product([True, False], repeat=D):
        other.append(repr(list(m)))
        if full:
            other.append('np.array(%r)' % (list(m),))
    other += ['np.int64(0)', 'np.int32(%d)' % (D - 1), 'np.array([0])', 'np.array([%d, 0])' % (D - 1), 'None', 'True',
              'np.uint8(0)', '[np.int64(0)]', 'np.array(0)', '[[0]]', '[[0], [%d]]' % (D - 1), '0.0', "b'CH1'"]
    # selectors that can be iterated only once
    # NumPy arrays of names (a selection computed with np.array(d.channels)[...]): one name is still a list of one channel
    other += ["np.array(['CH1'])", "np.array(['CH%d', 'CH1'])" % D, "np.array(['CH1', 'nope'])"]
    other += ["iter([0, %d])" % (D - 1), "(c for c in ['CH1', %d])" % (D - 1), "reversed([0, %d])" % (D - 1), "map(int, [%d, 0])" % (D - 1), "iter(['CH1'])", "iter([])"]
    if not full:
        other = other[:3] + ['np.int64(0)', 'np.array([0])', 'None', "iter([0, %d])" % (D - 1), "(c for c in ['CH1', %d])" % (D - 1)]
    ks += [(o, 'o') for o in other]
    return ks


def whole_keys(N, D, full=True):
    """keys that are not (rows, cols) pairs"""
    ks = [('None', 'o'), ('(0, 0, None)', 'o'), ('(slice(None,None,None), 0, None)', 'o'), ('(None, 0)', 'o'),
          ('(0, None)', 'o'), ('(Ellipsis, 0, None)', 'o'), ('(slice(None,None,None), Ellipsis, 0)', 'o'),
          ('(Ellipsis, slice(None,None,None), 0)', 'o'), ('(0, Ellipsis, 0)', 'o'), ('(Ellipsis, 0, slice(None,None,None))', 'o'),
          ('(None, slice(None,None,None), %r)' % 'CH1', 'o'), ('(0,)', 'o'), ('(slice(0,1,None),)', 'o'), ('()', 'o'),
          ('(0, 0, 0)', 'o'), ('(slice(None,None,None), None, 0)', 'o'),
          ('np.ones((%d, %d), dtype=bool)' % (N, D), 'o'), ('np.eye(%d, %d, dtype=bool)' % (N, D), 'o'),
          ("'CH1'", 'o'), ('(Ellipsis, Ellipsis)', 'o'), ('(Ellipsis, %r)' % 'CH1', 'g'), ('(Ellipsis, [0])', 'g')]
    return ks


NS = {'np': np, 'slice': slice, 'Ellipsis': Ellipsis, 'None': None, 'True': True, 'False': False}


def ev(expr):
    return eval(expr, dict(NS))


class Unknown(Exception):
    pass


def translate(colkey, names):
    if isinstance(colkey, str):
        if colkey in names:
            return names.index(colkey)
        raise Unknown(colkey)
    if isinstance(colkey, (list, tuple)):
        return [translate(k, names) for k in colkey]
    if isinstance(colkey, int) and not isinstance(colkey, bool):
        # out-of-range positions must be refused even where NumPy's broadcasting of an empty
        # row selection would not notice them
        if not -len(names) <= colkey < len(names):
            raise Unknown('position %d out of range' % colkey)
    return colkey


def has_str(k):
    if isinstance(k, (str, bytes)):
        return True
    if isinstance(k, (list, tuple)):
        return any(has_str(x) for x in k)
    return False


def ref_index(vals, cid, key, names):
    """-> ('ok', values, cids) or ('raise', why)"""
    try:
        if isinstance(key, tuple) and len(key) == 2:
            tkey = (key[0], translate(key[1], names))
        elif isinstance(key, tuple):
            tkey = tuple(translate(k, names) if has_str(k) and i == len(key) - 1 else k for i, k in enumerate(key))
        elif has_str(key):
            return 'raise', 'a name is only meaningful as the column element of a key'
        else:
            tkey = key
        if isinstance(tkey, tuple) and any(isinstance(k, (bytes, float)) for k in tkey):
            return 'raise', 'not an index'
        with warnings.catch_warnings():
            warnings.simplefilter('error')
            return 'ok', vals[tkey], cid[tkey]
    except Unknown as e:
        return 'raise', 'unknown name %s' % e
    except Exception as e:
        return 'raise', '%s: %s' % (type(e).__name__, e)


ACCESSORS = ('range', 'resolution', 'amplification_type', 'amplifier_gain', 'detector_voltage', 'channel_labels')


def original_meta(D):
    out = []
    for j in range(D):
        at = tuple(float(x) for x in PNE[j].split(','))
        if at[0] != 0 and at[1] == 0:
            at = (at[0], 1.0)
        out.append({'channels': 'CH%d' % (j + 1), 'range': [0.0, float(PNR[j] - 1)], 'resolution': PNR[j],
                    'amplification_type': at, 'amplifier_gain': float(PNG[j]), 'detector_voltage': float(PNV[j]),
                    'channel_labels': 'label%d' % (j + 1)})
    return out


def meta_sources(r, D0):
    """Which original column each metadata entry of r describes; None if the accessors disagree."""
    om = original_meta(D0)
    names = [m['channels'] for m in om]
    try:
        chans = list(r.channels)
        src = [names.index(c) for c in chans]
        for acc in ACCESSORS:
            got = getattr(r, acc)()
            if len(got) != len(src):
                return None, '%s() has %d entries, channels has %d' % (acc, len(got), len(src))
            for g, s in zip(got, src):
                if fbits(g) != fbits(om[s][acc]) and fbits(list(g) if isinstance(g, tuple) else g) != fbits(om[s][acc]):
                    return None, '%s() entry %r is not that of channel %s (%r)' % (acc, g, names[s], om[s][acc])
        return src, None
    except Exception as e:
        return None, 'metadata accessors raise %s: %s' % (type(e).__name__, e)


def aligned(cidr, src, key_is_pair):
    """Does metadata (list of original columns) match the result cells (array of original columns)?"""
    cidr = np.asarray(cidr)
    if cidr.ndim == 0:
        return True
    if cidr.ndim == 1:
        if cidr.size == 0:
            return True
        if len(src) == 1 and np.all(cidr == src[0]):
            return True
        return len(src) == cidr.shape[0] and cidr.tolist() == list(src)
    if cidr.size == 0:
        return cidr.shape[-1] == len(src) or cidr.shape[-1] == 0
    axes = [cidr.ndim - 1] if cidr.ndim == 2 else range(cidr.ndim)
    for ax in axes:
        if cidr.shape[ax] != len(src):
            continue
        moved = np.moveaxis(cidr, ax, 0).reshape(len(src), -1)
        if all(np.all(moved[k] == src[k]) for k in range(len(src))):
            return True
    return False


class Model(object):
    """reference state: values, and for every cell the ORIGINAL column it came from"""

    def __init__(self, vals, orig, names):
        self.vals, self.orig, self.names = vals, orig, names


def root_model(d):
    vals = np.array(d.view(np.ndarray))
    N, D = vals.shape
    orig = np.tile(np.arange(D), (N, 1))
    return Model(vals, orig, ['CH%d' % (j + 1) for j in range(D)])


def build(shape, hist):
    d = make_sample(shape)
    m = root_model(d)
    for k in hist:
        key = ev(k)
        st = ref_index(m.vals, m.orig, refkey(k), m.names)
        d = d[key]
        src = sorted(set(np.asarray(st[2]).ravel().tolist())) if np.asarray(st[2]).size else []
        # names of the current columns (2-D states only are expanded)
        orig = np.asarray(st[2])
        names = ['CH%d' % (c + 1) for c in (orig[0].tolist() if orig.ndim == 2 and orig.shape[0] else [])]
        if orig.ndim == 2 and orig.shape[0] == 0:
            names = list(d.channels)
        m = Model(np.asarray(st[1]), orig, names)
    return d, m


def materialize(k):
    if isinstance(k, tuple):
        return tuple(materialize(x) for x in k)
    if hasattr(k, '__next__') or isinstance(k, (map, reversed)):
        return list(k)
    if isinstance(k, np.ndarray) and k.dtype.kind in 'US':
        return k.tolist()               # an array of names is read as the list of those names
    return k


def is_lazy(kexpr):
    return any(t in kexpr for t in ('iter(', 'reversed(', 'map(', ' for '))


def refkey(kexpr):
    """the key as the reference reads it: a selector that can be iterated only once is read as the list of its items"""
    return materialize(ev(kexpr))


def judge(res, shape, hist, kexpr, kcls, d, m, one):
    """apply key to implementation state d and to the model m; record violations; return successor or None"""
    import FlowCal
    D0 = shape[1]
    key = ev(kexpr)
    lazy = is_lazy(kexpr)
    # a selector that can be iterated only once is spelled anew for the reference, which reads it as the list of its items
    st = ref_index(m.vals, m.orig, refkey(kexpr), m.names)
    try:
        with warnings.catch_warnings():
            warnings.simplefilter('ignore')
            r = d[key]
        raised = None
    except Exception as e:
        raised = e
    if not lazy and repr(key) != repr(ev(kexpr)):
        # the key is the caller's object (a list of names may be reused on another sample)
        res.violation('key-changed:%s' % key_form(kexpr), 'indexing sample%s%s with %s changed the key object itself to %r' % (
            shape, ''.join('[%s]' % h for h in hist), kexpr, key), one)
        return None
    what = 'sample%s%s[%s]' % (shape, ''.join('[%s]' % h for h in hist), kexpr)
    form = 'other' if kcls == 'o' else 'grammar'
    if st[0] == 'raise':
        if raised is None:
            res.violation('not-refused:%s:%s' % (form, key_form(kexpr)), '%s returned %r although %s' % (what, type(r).__name__, st[1]), one)
        else:
            res.ok('refused:' + form, True)
        return None
    if raised is not None:
        if kcls == 'o':
            res.ok('other-form:refused', True)
        else:
            res.violation('refused-valid:%s:%s' % (key_form(kexpr), type(raised).__name__),
                          '%s raised %s: %s; plain indexing selects %s' % (what, type(raised).__name__, raised, np.asarray(st[1]).tolist()), one)
        return None
    if not hist and isinstance(r, FlowCal.io.FCSData) and len(r.channels) and kcls == 'g':
        # the selection owns its metadata: editing a range entry of a second, identical selection leaves the sample (and the first
        # selection) as they were
        try:
            before_parent = [list(x) for x in d.range()]
            before_first = [list(x) for x in r.range()]
            r2 = d[ev(kexpr)]
            r2.range(0)[0] = -4321.5
            r2.range(0)[1] = 98765.25
            if [list(x) for x in d.range()] != before_parent or [list(x) for x in r.range()] != before_first:
                res.violation('selection-shares-range:%s' % key_form(kexpr), 'editing a range entry of sample%s[%s] changed the range of the sample it was taken from (or of an earlier identical selection)' % (
                    shape, kexpr), one)
                return None
        except Exception:
            pass
    rv, rc = np.asarray(st[1]), np.asarray(st[2])
    got = np.asarray(r)
    if got.shape != rv.shape or got.dtype != rv.dtype or not np.array_equal(got, rv):
        res.violation('values:%s' % key_form(kexpr), '%s = %s (shape %s), plain indexing gives %s (shape %s)' % (
            what, got.tolist(), got.shape, rv.tolist(), rv.shape), one)
        return None
    if rv.ndim == 0:
        if isinstance(r, FlowCal.io.FCSData) or isinstance(r, np.ndarray) and kcls == 'g':
            res.violation('scalar-not-plain:%s' % key_form(kexpr), '%s returned a %s, not a plain scalar' % (what, type(r).__name__), one)
            return None
        res.ok('scalar', True)
        return None
    if not isinstance(r, FlowCal.io.FCSData):
        if kcls == 'g':
            res.violation('plain-array:%s' % key_form(kexpr), '%s returned a %s without metadata' % (what, type(r).__name__), one)
        else:
            res.ok('other-form:plain-ndarray', True)
        return None
    flattening = isinstance(key, np.ndarray) and key.dtype == bool and key.ndim == 2
    if flattening:
        res.ok('flattening:values-only', True)
        return None
    src, why = meta_sources(r, D0)
    if src is None:
        res.violation('metadata-inconsistent:%s' % key_form(kexpr), '%s: %s' % (what, why), one)
        return None
    if not aligned(rc, src, isinstance(key, tuple) and len(key) == 2):
        res.violation('misaligned:%s:%s' % (form, key_form(kexpr)),
                      '%s has shape %s whose cells come from columns %s, but carries the metadata of columns %s' % (
                          what, rv.shape, rc.tolist(), src), one)
        return None
    if rc.size == 0 and rv.ndim == 2 and isinstance(key, tuple) and len(key) == 2:
        # empty row selection: the column count must still follow the column key
        try:
            want = np.atleast_1d(np.asarray(m.orig[0] if m.orig.shape[0] else np.arange(len(m.names)))[translate(key[1], m.names)])
            if m.orig.shape[0] == 0:
                want = None
        except Exception:
            want = None
        if want is not None and list(want) != list(src):
            res.violation('misaligned-empty:%s' % key_form(kexpr), '%s selects no rows of columns %s but carries metadata of %s' % (
                what, list(want), src), one)
            return None
    nontriv = 0 < rv.size < m.vals.size or (rc.ndim == 2 and rc.shape[0] and rc[0].tolist() != list(range(D0)))
    res.ok('aligned:%dd:%s' % (rv.ndim, form), bool(nontriv))
    return r


def key_form(kexpr):
    """coarse syntactic class of a key, for signatures"""
    import re
    s = re.sub(r'-?\d+(\.\d+)?', 'i', kexpr)
    s = re.sub(r"'CH\w+'", 'name', s)
    s = re.sub(r'True|False', 'b', s)
    s = re.sub(r'slice\([^)]*\)', 'slice', s)
    return s[:60]


def cases(tier, seed):
    shapes = SHAPES_Q if tier == 'quick' else SHAPES_T
    for sh in shapes:
        N, D = sh
        rk = row_keys(N)
        # depth 1, complete alphabet: one case per row key (cols enumerated inside)
        for i in range(0, len(rk), 8):
            yield dict(kind='depth1', shape=list(sh), rows=rk[i:i + 8])
        yield dict(kind='depth1-single', shape=list(sh))
        yield dict(kind='setitem', shape=list(sh), part=0)
        yield dict(kind='setitem', shape=list(sh), part=1)
    # chains: BFS over the reduced alphabet
    for sh in shapes:
        yield dict(kind='chain', shape=list(sh), depth=2 if tier == 'quick' else 3)
    if tier == 'thorough':
        # complete alphabet at depth 2 from every distinct 2-D state reachable by one reduced key
        for sh in [(3, 3), (2, 2)]:
            for k1 in reduced_alphabet(*sh):
                yield dict(kind='depth2-full', shape=list(sh), first=k1[0])


def bounds(tier, seed):
    return {'shapes': SHAPES_Q if tier == 'quick' else SHAPES_T, 'chain_depth': 2 if tier == 'quick' else 3,
            'depth1_alphabet': 'complete', 'depth2_alphabet': 'reduced' if tier == 'quick' else 'reduced (BFS) + complete (from reduced first keys)'}


def reduced_alphabet(N, D):
    ks = []
    for r, rc in row_keys(N, full=False):
        for c, cc in col_keys(D, full=False):
            ks.append(('(%s, %s)' % (r, c), 'o' if 'o' in (rc, cc) else 'g'))
    ks += [(r, rc) for r, rc in row_keys(N, full=False)]
    ks += whole_keys(N, D)[:8]
    seen, out = set(), []
    for k in ks:
        if k[0] not in seen:
            seen.add(k[0])
            out.append(k)
    return out


def empty_alphabet(N, D):
    """keys for a sample without events or without channels (everything was deselected by an earlier step): such a sample is still a
    sample, and indexing it again gives a sample with the matching (empty) metadata"""
    rows = row_keys(N, full=False) if N > 0 else [(k_, 'g') for k_ in (
        'slice(None,None,None)', '[]', 'slice(None,None,-1)', 'Ellipsis', '0', 'slice(3,9,None)', 'np.zeros(0, dtype=bool)', '-1')]
    cols = col_keys(D, full=False) if D > 0 else [(k_, 'g') for k_ in (
        'slice(None,None,None)', '[]', 'slice(None,None,-2)', 'Ellipsis', 'slice(0,1,None)', '0', "'CH1'", '()', "['CH1']")] + [('np.zeros(0, dtype=bool)', 'o')]
    ks = [('(%s, %s)' % (r, c), 'o' if 'o' in (rc, cc) else 'g') for r, rc in rows for c, cc in cols]
    ks += list(rows)
    ks += [('(Ellipsis, slice(None,None,None))', 'g'), ('()', 'o'), ('None', 'o')]
    seen, out = set(), []
    for k in ks:
        if k[0] not in seen:
            seen.add(k[0])
            out.append(k)
    return out


def full_alphabet(N, D, rows=None):
    for r, rc in (rows or row_keys(N)):
        for c, cc in col_keys(D):
            yield '(%s, %s)' % (r, c), 'o' if 'o' in (rc, cc) else 'g'


def run_case(c):
    res = Result()
    shape = tuple(c['shape'])
    N, D = shape
    k = c['kind']
    if k == 'one':
        d, m = build(shape, c['hist'])
        judge(res, shape, c['hist'], c['key'], c['cls'], d, m, c)
        return res
    if k == 'one-set':
        judge_set(res, shape, c['key'], c['cls'], c['item'], c)
        return res
    if k in ('depth1', 'depth1-single'):
        d, m = build(shape, [])
        if k == 'depth1':
            keys = full_alphabet(N, D, [tuple(x) for x in c['rows']])
        else:
            keys = [(r, rc) for r, rc in row_keys(N)] + whole_keys(N, D)
        n = 0
        for kexpr, kcls in keys:
            one = dict(kind='one', shape=list(shape), hist=[], key=kexpr, cls=kcls)
            judge(res, shape, [], kexpr, kcls, d, m, one)
            n += 1
        res.counters['transitions'] += n
        res.counters['traces_validated_against_impl'] += n
        res.sample({'shape': shape, 'history': [], 'key': c['rows'][0][0] + ' x all column keys' if k == 'depth1' else 'row-only and whole keys'})
        return res
    if k == 'setitem':
        keys = list(full_alphabet(N, D))
        keys += [(r, rc) for r, rc in row_keys(N)]
        keys = keys[c['part']::2]
        n = 0
        for kexpr, kcls in keys:
            for item in ('scalar', 'distinct'):
                one = dict(kind='one-set', shape=list(shape), key=kexpr, cls=kcls, item=item)
                judge_set(res, shape, kexpr, kcls, item, one)
                n += 1
        res.counters['transitions'] += n
        res.counters['traces_validated_against_impl'] += n
        res.sample({'shape': shape, 'operation': '__setitem__', 'keys': len(keys), 'items': ['scalar sentinel', 'distinct sentinels']})
        return res
    if k in ('chain', 'depth2-full'):
        import FlowCal
        cls_all = {}

        def build_(hist):
            return build(shape, list(hist))

        def events(state, depth):
            d, m = state
            n_, d_ = m.vals.shape
            if n_ == 0 or d_ == 0:
                al = empty_alphabet(n_, d_)
            elif k == 'depth2-full' and depth >= 0 and len(roots[0]) + depth >= 1:
                al = list(full_alphabet(n_, d_))
            else:
                al = reduced_alphabet(n_, d_)
            for e, cl in al:
                cls_all.setdefault(e, cl)
            return [e for e, _ in al]

        def check(hist, kexpr, state):
            d, m = state
            kcls = cls_all.get(kexpr, 'o')
            one = dict(kind='one', shape=list(shape), hist=list(hist), key=kexpr, cls=kcls)
            r = judge(res, shape, list(hist), kexpr, kcls, d, m, one)
            if r is None:
                return None
            st = ref_index(m.vals, m.orig, refkey(kexpr), m.names)
            orig = np.asarray(st[2])
            names = ['CH%d' % (x + 1) for x in (orig[0].tolist() if orig.ndim == 2 and orig.shape[0] else [])]
            return r, Model(np.asarray(st[1]), orig, names)

        def expandable(state):
            d, m = state
            return m.vals.ndim == 2 and isinstance(d, FlowCal.io.FCSData)

        roots = [()] if k == 'chain' else [(c['first'],)]
        if k == 'depth2-full':
            # only first keys that lead to another 2-D sample are roots of the complete depth-2 exploration
            try:
                with warnings.catch_warnings():
                    warnings.simplefilter('ignore')
                    st0 = build_(roots[0])
                okroot = expandable(st0)
            except Exception:
                okroot = False
            if not okroot:
                res.ok('depth2-root-not-a-2d-sample', False)
                res.sample({'shape': shape, 'bfs': k, 'root': list(roots[0]), 'skipped': 'first key does not yield a 2-D sample'})
                return res
        st = bfs.search(build_, events, check, lambda s: fp(s[0]), expandable,
                        c.get('depth', 2) if k == 'chain' else 1, roots=roots)
        res.hashes |= st['states']
        res.counters['transitions'] += st['transitions']
        res.counters['traces_validated_against_impl'] += st['transitions']
        res.counters['max_depth'] = max(res.counters['max_depth'], st['depth'] + len(roots[0]))
        res.sample({'shape': shape, 'bfs': k, 'roots': [list(r) for r in roots], 'frontier_sizes': st['frontier_sizes'],
                    'example_history': ['(slice(1,None,None), [-1, 0])', "(0, 'CH3')"]})
        return res
    raise ValueError(k)


_ROOTS = {}


def judge_set(res, shape, kexpr, kcls, item, one):
    import FlowCal
    N, D = shape
    if shape not in _ROOTS:
        _ROOTS[shape] = build(shape, [])
    d = _ROOTS[shape][0].copy()
    m = _ROOTS[shape][1]
    key = ev(kexpr)
    before_meta = fp(d)[2]
    vals = m.vals.copy()
    st = ref_index(m.vals, np.arange(N * D).reshape(N, D), key, m.names)
    what = 'sample%s[%s] = %s' % (shape, kexpr, item)
    if st[0] == 'ok':
        cells = np.asarray(st[2])
        if item == 'scalar':
            val = 60000
        else:
            val = (50000 + np.arange(cells.size)).reshape(cells.shape).astype(vals.dtype)
        # reference write: addressed cells, in NumPy's order for repeated cells (last wins)
        flat = vals.reshape(-1)
        if item == 'scalar':
            flat[cells.ravel()] = val
        else:
            for cidx, v in zip(cells.ravel().tolist(), np.asarray(val).ravel().tolist()):
                flat[cidx] = v
    try:
        with warnings.catch_warnings():
            warnings.simplefilter('ignore')
            d[key] = (val if st[0] == 'ok' else 60000)
        raised = None
    except Exception as e:
        raised = e
    if st[0] == 'raise':
        if raised is None:
            if kcls == 'o':
                res.ok('set:other-form-accepted', True)
            else:
                res.violation('set:not-refused:%s' % key_form(kexpr), '%s did not raise although %s' % (what, st[1]), one)
        else:
            res.ok('set:refused', True)
        return
    if raised is not None:
        if kcls == 'o':
            res.ok('set:other-form-refused', True)
        else:
            res.violation('set:refused-valid:%s:%s' % (key_form(kexpr), type(raised).__name__), '%s raised %s: %s' % (
                what, type(raised).__name__, raised), one)
        return
    got = np.asarray(d)
    if not np.array_equal(got, vals):
        res.violation('set:cells:%s' % key_form(kexpr), '%s wrote %s, the addressed cells give %s' % (what, got.tolist(), vals.tolist()), one)
        return
    if fp(d)[2] != before_meta:
        res.violation('set:metadata:%s' % key_form(kexpr), '%s changed the metadata' % what, one)
        return
    res.ok('set:written', cells.size > 0)
