"""C10 -- Excel results equal the documented library steps applied by hand (E1)."""
import itertools
import os
import shutil
import warnings

import numpy as np

from .. import workbookgen as wg, explore
from ..fingerprint import fp, diff
from ..runner import Result, scratch

ID = 'C10'
LEVEL = 'exploration'
TECHNIQUE = ('bounded exhaustive enumeration of generated experiments (instruments x bead rows x sample rows x gate fractions x '
             'integer/float files within a deviation bound) plus the complete 9x9 product of unit spellings for two fluorescence '
             'channels; every returned sample compared by fingerprint with the hand composition of the documented library steps, '
             'every statistics cell with the library statistic of that sample, every histogram row with np.histogram over the '
             'library bin edges')
RULE = ('one evaluation = one sample row checked end to end (sample fingerprint, 10 statistics x channels, event count, time, '
        'histogram rows); every experiment of the deviation ball and every unit pair exactly once; non-trivial = at least one '
        'channel converted or gated; distinct by construction')
ASSUMPTIONS = ['the hand composition uses the library\'s own public functions in the documented order (convert scatter to RFI; per-channel units; '
               'start_end(250,100); high_low on scatter+reported channels for integer data; density2d on scatter with logicle bins)',
               'the bead calibration used by the hand composition is recomputed from the bead row by hand as well',
               'histogram scale (linear for Channel units, logicle otherwise) is inferred from the bin centres; both are library bin edges']
CHUNK = 1

UNITS = [None, 'Channel', 'channel', 'RFI', 'rfi', 'a.u.', 'au', 'MEF', 'mef']
STATS = [('Mean', 'mean'), ('Geom. Mean', 'gmean'), ('Median', 'median'), ('Mode', 'mode'), ('Std', 'std'), ('CV', 'cv'),
         ('Geom. Std', 'gstd'), ('Geom. CV', 'gcv'), ('IQR', 'iqr'), ('RCV', 'rcv')]


def cases(tier, seed):
    # (0) two calibrations with different clustering channels, each resolvable in its own channel only: as two bead rows
    #     of one workbook, and as two workbooks analysed one after the other.  These come first so that each is the first
    #     thing its worker process executes (state leaked by earlier calls of the same process cannot mask the effect).
    yield dict(kind='sequence', mode='one-workbook')
    yield dict(kind='sequence', mode='two-workbooks')
    # (A) the complete product of unit spellings on one row, nine rows per workbook
    pairs = list(itertools.product(range(len(UNITS)), repeat=2))
    for i in range(0, len(pairs), 9):
        yield dict(kind='units', pairs=pairs[i:i + 9], cont='int', hist=(i // 9) % 2 == 0, hdr=('plain', 'blanks')[(i // 9) % 3 == 1])
    if tier == 'thorough':
        for i in range(0, len(pairs), 9):
            yield dict(kind='units', pairs=pairs[i:i + 9], cont='float', hist=True)
        for i in range(0, len(pairs), 27):
            yield dict(kind='units', pairs=pairs[i:i + 27], cont='double', hist=True)
    # (B) experiments within a deviation bound
    dims = [('ninst', [1, 2, 3]), ('nbeads', [1, 0, 2]), ('nsamples', [2, 1, 3, 4]), ('gf', [0.85, 0.3, 1.0]), ('cont', ['int', 'float', 'double']),
            ('neg', [False, True]), ('hist', [True, False]), ('units', ['mixed', 'all-mef', 'none', 'channel']),
            ('res', ['same', 'mixed']), ('cluster', ['all', 'second-only', 'first-only']),
            ('nevents', ['many', 'smallest-accepted', 'one-more']),      # 400 events is the smallest file the workflow accepts
            ('failed_row', ['none', 'first', 'middle']),                  # a row whose file does not exist, listed above the rows under test
            ('mefnone', [False, True]),                                   # a manufacturer value given as None in the bead rows
            ('samplevolt', ['recorded', 'absent']),
            ('chnames', ['plain', 'blank']),
            ('beadsref', ['own', 'failed-row']),
            ('mefcols', ['instrument-order', 'reversed']),                  # left-to-right order of the '<channel> MEF Values' columns of the Beads sheet
            ('headneg', [False, True]),                                     # float files: strongly negative scatter values among the events discarded first                            # rows that ask for no MEF name a bead row whose file is missing (no fault: no calibration is needed)
            ('hdr', ['plain', 'blanks']),                                 # blanks around / inside the '<channel> Units' headers (allowed by the documented header pattern)
            ('clock', ['ticks', 'flat', 'btim-equal', 'btim', 'none'])]   # how the files record time: 'flat' and 'btim-equal' give an acquisition time of exactly 0 s, 'none' no time at all                              # fluorescence channel names with a blank inside                       # sample files that do not record the optional detector voltage
    # (floating-point files always hold a few scatter events beyond the declared range: they are not clipped by the instrument)
    done = []
    for cfg in explore.deviations(dims, 1 if tier == 'quick' else 2):
        done.append(cfg)
        yield dict(kind='experiment', cfg=cfg)
    # pairs of deviations that interact in the workflow (also in the quick tier): floating-point data with a gate fraction of one
    # (no saturation gate, only the density gate's grid removes out-of-range events), and with the smallest accepted file
    base = {k_: v[0] for k_, v in dims}
    for extra in (dict(cont='float', gf=1.0), dict(cont='double', gf=1.0, hist=False), dict(cont='float', gf=1.0, nevents='smallest-accepted'),
                  dict(cont='float', neg=True, gf=1.0), dict(mefnone=True, units='all-mef'), dict(mefnone=True, nbeads=2, ninst=2),
                  dict(samplevolt='absent', units='all-mef'), dict(samplevolt='absent', cont='float'),
                  dict(mefcols='reversed', units='all-mef'), dict(mefcols='reversed', units='all-mef', nbeads=2, ninst=2),
                  dict(headneg=True, cont='float'), dict(headneg=True, cont='double', gf=0.3), dict(headneg=True, cont='float', neg=True, gf=1.0)):
        cfg = dict(base, **extra)
        cfg['_dev'] = len(extra)
        if not any(all(d_.get(k_) == v for k_, v in cfg.items() if k_ != '_dev') for d_ in done):
            yield dict(kind='experiment', cfg=cfg)



def bounds(tier, seed):
    return {'unit_spellings': UNITS, 'experiment_deviation_bound': 1 if tier == 'quick' else 2}


def build_sequence(c, d, which):
    """which: list of calibration indices (0: resolved in FL1 only, 1: resolved in FL2 only) to put into this workbook"""
    inst = wg.instrument(0)
    beads, samples = [], []
    for k in which:
        lay, truth = wg.bead_layout(inst, stream=80 + k, container='int', flat_channels=[1 - k])
        wg.write_fcs(os.path.join(d, 'beads_seq%d.fcs' % k), lay)
        ch = inst['fl'][k]
        beads.append(dict(id='BQ%d' % k, inst=inst['id'], file='beads_seq%d.fcs' % k, gate_fraction=0.3, cluster=ch,
                          mef={ch: wg.mef_string(truth, k)}, inst_obj=inst))
        wg.write_fcs(os.path.join(d, 'cells_seq%d.fcs' % k), wg.cell_layout(inst, stream=90 + k, container='int', n=850))
        samples.append(dict(id='SQ%d' % k, inst=inst['id'], beads='BQ%d' % k, file='cells_seq%d.fcs' % k, gate_fraction=0.85,
                            units={ch: 'MEF', inst['fl'][1 - k]: 'RFI'}, inst_obj=inst))
    wb = os.path.join(d, 'experiment_%s.xlsx' % ''.join(map(str, which)))
    wg.write_workbook(wb, [inst], beads, samples, mef_channels_cols=list(inst['fl']), unit_channels_cols=list(inst['fl']))
    return wb, [inst], beads, samples, True


def build_experiment(c, d):
    """writes files + workbook into d; returns (workbook path, instruments, bead rows, sample rows, truth per bead row)"""
    if c['kind'] == 'sequence':
        return build_sequence(c, d, c['which'])
    if c['kind'] == 'units':
        insts = [wg.instrument(0)]
        lay, truth = wg.bead_layout(insts[0], stream=5, container=c['cont'])
        wg.write_fcs(os.path.join(d, 'beads0.fcs'), lay)
        beads = [dict(id='B1', inst='INST1', file='beads0.fcs', gate_fraction=0.3, cluster=', '.join(insts[0]['fl']),
                      mef={ch: wg.mef_string(truth, ci) for ci, ch in enumerate(insts[0]['fl'])}, inst_obj=insts[0])]
        wg.write_fcs(os.path.join(d, 'cells0.fcs'), wg.cell_layout(insts[0], stream=31, container=c['cont'], negatives=c['cont'] != 'int'))
        samples = []
        for k, (u1, u2) in enumerate(c['pairs']):
            samples.append(dict(id='S%02d' % k, inst='INST1', beads='B1', file='cells0.fcs', gate_fraction=[0.85, 0.5, 1.0][k % 3],
                                units={insts[0]['fl'][0]: UNITS[u1], insts[0]['fl'][1]: UNITS[u2]}, inst_obj=insts[0]))
        hist = c['hist']
    else:
        cfg = c['cfg']
        insts = [wg.instrument(i, blank_names=(cfg.get('chnames') == 'blank')) for i in range(cfg['ninst'])]
        beads = []
        for k in range(cfg['nbeads']):
            inst = insts[k % len(insts)]
            resl = [1024, 256] if cfg.get('res') == 'mixed' else None
            lay, truth = wg.bead_layout(inst, stream=40 + k, container=cfg['cont'], res=resl)
            wg.write_fcs(os.path.join(d, 'beads%d.fcs' % k), lay)
            # bead rows of one table differ in their clustering channels (row 1: as configured, row 2: the other choice)
            cchoice = cfg.get('cluster', 'all') if k == 0 else {'all': 'second-only', 'second-only': 'all', 'first-only': 'all'}[cfg.get('cluster', 'all')]
            clus = {'all': ', '.join(inst['fl']), 'second-only': inst['fl'][1], 'first-only': inst['fl'][0]}[cchoice]
            beads.append(dict(id='B%d' % (k + 1), inst=inst['id'], file='beads%d.fcs' % k, gate_fraction=[0.3, 0.5][k % 2], cluster=clus,
                              mef={ch: wg.mef_string(truth, ci, unknown=((1 + ci,) if cfg.get('mefnone') else ())) for ci, ch in enumerate(inst['fl'])}, inst_obj=inst))
        samples = []
        for k in range(cfg['nsamples']):
            inst = insts[k % len(insts)]
            wg.write_fcs(os.path.join(d, 'sub', 'cells%d.fcs' % k), wg.cell_layout(inst, stream=50 + k, container=cfg['cont'], negatives=cfg['neg'] and cfg['cont'] != 'int',
                                                                                  n={'many': 800 + 150 * k, 'smallest-accepted': 400 + 600 * (k % 2), 'one-more': 401 + k}[cfg.get('nevents', 'many')],
                                                                                  level=150.0 + 60 * k, overrange=cfg['cont'] != 'int', no_voltage=(cfg.get('samplevolt') == 'absent' and k % 2 == 0),
                                                                                  res=[1024, 256] if cfg.get('res') == 'mixed' else None, clock=cfg.get('clock', 'ticks'),
                                                                                  scatter_neg_head=bool(cfg.get('headneg')) and cfg['cont'] != 'int'))
            mybeads = [b for b in beads if b['inst'] == inst['id']]
            if cfg['units'] == 'mixed':
                u = [['MEF', 'RFI'], ['a.u.', None], ['Channel', 'mef'], ['rfi', 'MEF']][k % 4]
            elif cfg['units'] == 'all-mef':
                u = ['MEF', 'MEF']
            elif cfg['units'] == 'none':
                u = [None, None]
            else:
                u = ['Channel', 'channel']
            if not mybeads:
                u = [x if (x or '').lower() != 'mef' else 'RFI' for x in u]
            samples.append(dict(id='S%d' % (k + 1), inst=inst['id'], beads=mybeads[(k // max(1, len(insts))) % len(mybeads)]['id'] if mybeads else None, file='sub/cells%d.fcs' % k,
                                gate_fraction=cfg['gf'], units={inst['fl'][0]: u[0], inst['fl'][1]: u[1]}, inst_obj=inst))
        hist = cfg['hist']
        if cfg.get('beadsref') == 'failed-row':
            beads.insert(0, dict(id='BX', inst=insts[0]['id'], file='no_such_beads.fcs', gate_fraction=0.3, cluster=', '.join(insts[0]['fl']),
                                 mef={ch: '0, 100, 1000, 10000' for ch in insts[0]['fl']}, inst_obj=insts[0], expect_error=True))
            for s_ in samples:
                if not any((u_ or '').lower() == 'mef' for u_ in s_['units'].values()):
                    s_['beads'] = 'BX'
        if cfg.get('failed_row', 'none') != 'none' and samples:
            bad = dict(samples[0], id='SX', file='sub/no_such_file.fcs', expect_error=True)
            samples.insert(0 if cfg['failed_row'] == 'first' else max(1, len(samples) // 2), bad)
    wb = os.path.join(d, 'experiment.xlsx')
    mcols, ucols = [], []
    for b in beads:
        for ch in b['mef']:
            if ch not in mcols:
                mcols.append(ch)
    for s in samples:
        for ch in s['units']:
            if ch not in ucols:
                ucols.append(ch)
    if c.get('cfg', {}).get('mefcols') == 'reversed':
        mcols.reverse()
    wg.write_workbook(wb, insts, beads, samples, mef_channels_cols=mcols, unit_channels_cols=ucols,
                      header_style=(c.get('hdr') or c.get('cfg', {}).get('hdr') or 'plain'))
    return wb, insts, beads, samples, hist


def hand_beads(b, d):
    """bead calibration by hand from the documented steps"""
    import FlowCal
    inst = b['inst_obj']
    sc = [inst['fsc'], inst['ssc']]
    s = FlowCal.io.FCSData(os.path.join(d, b['file']))
    s = FlowCal.transform.to_rfi(s, sc + inst['fl'])
    g = FlowCal.gate.start_end(s, num_start=250, num_end=100)
    if g.data_type == 'I':
        g = FlowCal.gate.high_low(g, channels=sc)
    g = FlowCal.gate.density2d(g, channels=sc, gate_fraction=b['gate_fraction'], xscale='logicle', yscale='logicle', sigma=5.)
    chans = [ch for ch in inst['fl'] if b['mef'].get(ch)]
    vals = [[int(e) if e.strip().isdigit() else np.nan for e in b['mef'][ch].split(',')] for ch in chans]
    np.random.seed(1)
    return FlowCal.mef.get_transform_fxn(g, np.array(vals), mef_channels=chans, clustering_channels=[x.strip() for x in b['cluster'].split(',')])


def hand_sample(srow, d, bead_fxn):
    import FlowCal
    inst = srow['inst_obj']
    sc = [inst['fsc'], inst['ssc']]
    s = FlowCal.io.FCSData(os.path.join(d, srow['file']))
    s = FlowCal.transform.to_rfi(s, sc)
    report = []
    for ch in inst['fl']:
        u = srow['units'].get(ch)
        if u is None:
            continue
        ul = u.strip().lower()
        if ul == 'channel':
            pass
        elif ul in ('rfi', 'a.u.', 'au'):
            s = FlowCal.transform.to_rfi(s, ch)
        elif ul == 'mef':
            s = FlowCal.transform.to_rfi(s, ch)
            s = bead_fxn(s, ch)
        report.append(ch)
    g = FlowCal.gate.start_end(s, num_start=250, num_end=100)
    if g.data_type == 'I':
        g = FlowCal.gate.high_low(g, sc + report)
    g = FlowCal.gate.density2d(g, channels=sc, gate_fraction=srow['gate_fraction'], xscale='logicle', yscale='logicle')
    return g, report


def same_num(a, b):
    if a is None or b is None:
        return a is None and b is None
    try:
        a, b = float(a), float(b)
    except Exception:
        return a == b
    if a != a or b != b:
        return a != a and b != b
    return a == b or abs(a - b) <= 1e-12 * max(abs(a), abs(b))


_N = [0]


def run_case(c):
    if c['kind'] == 'sequence' and 'which' not in c:
        res = Result()
        parts = [[0, 1]] if c['mode'] == 'one-workbook' else [[0], [1]]
        for which in parts:
            sub = run_case(dict(c, which=which))
            res.n += sub.n
            res.nontrivial += sub.nontrivial
            res.classes.update(sub.classes)
            res.violations.extend(sub.violations)
            res.samples = sub.samples
        return res
    import FlowCal
    ui = FlowCal.excel_ui
    res = Result()
    _N[0] += 1
    d = os.path.join(scratch(), 'c10_%d' % _N[0])
    os.makedirs(d, exist_ok=True)
    try:
        with warnings.catch_warnings():
            warnings.simplefilter('ignore')
            wb, insts, beads, samples, hist = build_experiment(c, d)
            one = dict(c)
            # the documented flow (what excel_ui.run does, without writing the output workbook: that is C15)
            try:
                it = ui.read_table(wb, 'Instruments', 'ID')
                bt = ui.read_table(wb, 'Beads', 'ID')
                st = ui.read_table(wb, 'Samples', 'ID')
                np.random.seed(1)
                bs, fx, outs = ui.process_beads_table(bt, it, base_dir=d, verbose=False, plot=False, full_output=True)
                ui.add_beads_stats(bt, bs, outs)
                got = ui.process_samples_table(st, it, mef_transform_fxns=fx, beads_table=bt, base_dir=d, verbose=False, plot=False)
                ui.add_samples_stats(st, got)
                ht = ui.generate_histograms_table(st, got) if hist else None
            except Exception as e:
                res.violation('workflow-raises:%s' % type(e).__name__, 'the workflow raised %s: %s on a well-formed generated experiment %r' % (type(e).__name__, e, c), one)
                return res
            bead_fx = {}
            for b in beads:
                if any(b['mef'].values()) and not b.get('expect_error'):
                    bead_fx[b['id']] = hand_beads(b, d)
            # the optional beads table only adds a comparison of acquisition settings: without it every row yields the same sample
            try:
                st_nb = ui.read_table(wb, 'Samples', 'ID')
                got_nb = ui.process_samples_table(st_nb, it, mef_transform_fxns=fx, base_dir=d, verbose=False, plot=False)
            except Exception as e:
                res.violation('workflow-raises:no-beads-table:%s' % type(e).__name__, 'process_samples_table without the optional beads_table raised %s: %s on a well-formed generated experiment %r' % (
                    type(e).__name__, e, c), one)
                return res
            for srow in samples:
                s_a, s_b = got.get(srow['id']), got_nb.get(srow['id'])
                if isinstance(s_a, Exception) or s_a is None:
                    continue
                if isinstance(s_b, Exception) or s_b is None or fp(s_b) != fp(s_a):
                    res.violation('no-beads-table-differs', 'sample row %s (units %s): processed without the optional beads_table the row yields %s' % (
                        srow['id'], srow['units'], ('the error %s' % s_b) if isinstance(s_b, Exception) or s_b is None else 'another sample: %s' % diff(fp(s_b), fp(s_a))), one)
                    return res
            for srow in samples:
                sid = srow['id']
                what = 'sample row %s (units %s, gate fraction %r, file %s)' % (sid, srow['units'], srow['gate_fraction'], srow['file'])
                s = got.get(sid)
                if srow.get('expect_error'):
                    if not isinstance(s, Exception):
                        res.violation('failed-row-not-reported', '%s names a file that does not exist but was not reported as that row\'s error' % what, one)
                    else:
                        res.ok('row:failed', True)
                    continue
                if isinstance(s, Exception) or s is None:
                    res.violation('row-failed', '%s failed in a well-formed experiment: %s' % (what, s), one)
                    continue
                hand, report = hand_sample(srow, d, bead_fx.get(srow['beads']))
                df = diff(fp(s), fp(hand))
                if df:
                    res.violation('sample-differs', '%s: the returned sample differs from the documented steps applied by hand: %s (returned %d events, by hand %d)' % (
                        what, df, s.shape[0], hand.shape[0]), one)
                    continue
                ok = True
                hand_t = hand.acquisition_time if hand.acquisition_time is not None else float('nan')         # (no time information: an empty cell)
                if not same_num(st.loc[sid, 'Number of Events'], hand.shape[0]) or not same_num(st.loc[sid, 'Acquisition Time (s)'] if st.loc[sid, 'Acquisition Time (s)'] is not None else float('nan'), hand_t):
                    res.violation('count-or-time', '%s: Number of Events %r / Acquisition Time %r, the gated sample has %d events / %r s' % (
                        what, st.loc[sid, 'Number of Events'], st.loc[sid, 'Acquisition Time (s)'], hand.shape[0], hand.acquisition_time), one)
                    ok = False
                note = st.loc[sid, 'Analysis Notes']
                for ch in srow['inst_obj']['fl']:
                    if not ok:
                        break
                    col_exists = ('%s Mean' % ch) in st.columns
                    if srow['units'].get(ch) is None:
                        if col_exists and not all(st.loc[sid, '%s %s' % (ch, lab)] != st.loc[sid, '%s %s' % (ch, lab)] for lab, _ in STATS):
                            res.violation('stats-without-units', '%s: channel %s has no units but statistics were filled in' % (what, ch), one)
                            ok = False
                        continue
                    nonpos = bool(np.any(np.asarray(hand[:, ch]) <= 0))
                    pos = hand[np.asarray(hand[:, ch]) > 0] if nonpos else hand
                    for lab, fn in STATS:
                        src = pos if fn in ('gmean', 'gstd', 'gcv') else hand
                        want = getattr(FlowCal.stats, fn)(src, ch)
                        cell = st.loc[sid, '%s %s' % (ch, lab)]
                        if not same_num(cell, want):
                            res.violation('statistic:%s' % fn, '%s: column "%s %s" is %r, stats.%s of the gated sample%s is %r' % (
                                what, ch, lab, cell, fn, ' (positive events)' if src is pos and nonpos else '', want), one)
                            ok = False
                            break
                    has_note = isinstance(note, str) and ('Geometric statistics for channel %s calculated on positive events' % ch) in note
                    if ok and has_note != nonpos:
                        res.violation('geometric-note', '%s: channel %s has %s non-positive events but the note is %r' % (what, ch, 'some' if nonpos else 'no', note), one)
                        ok = False
                    if ok and hist:
                        unit = srow['units'][ch]
                        try:
                            centers = np.asarray(ht.loc[(sid, ch, 'Bin Centers (%s)' % unit)].dropna(), dtype=float)
                            counts = np.asarray(ht.loc[(sid, ch, 'Counts')].dropna(), dtype=float)
                        except KeyError:
                            res.violation('histogram-missing', '%s: no histogram rows for channel %s' % (what, ch), one)
                            ok = False
                            continue
                        nb = min(hand.resolution(ch), 1024)
                        matched = False
                        for scale in ('linear', 'logicle'):
                            ext = np.asarray(hand.hist_bins(ch, 2 * nb, scale), dtype=float)
                            if len(centers) == nb and np.allclose(centers, ext[1::2], rtol=1e-12, atol=0):
                                edges = ext[::2]
                                hc, _ = np.histogram(np.asarray(hand[:, ch]), bins=edges)
                                x = np.asarray(hand[:, ch])
                                inside = int(np.sum((x >= edges[0]) & (x <= edges[-1])))
                                if len(counts) != nb or not np.array_equal(counts, hc) or int(counts.sum()) != inside:
                                    res.violation('histogram-counts', '%s: histogram counts of channel %s (sum %d) differ from np.histogram over the library %s bin edges (sum %d, %d events inside the edges)' % (
                                        what, ch, int(counts.sum()), scale, int(hc.sum()), inside), one)
                                    ok = False
                                matched = True
                                break
                        if not matched:
                            res.violation('histogram-bins', '%s: bin centres of channel %s are not those of the library bin edges (linear or logicle, %d bins)' % (what, ch, nb), one)
                            ok = False
                if ok:
                    res.ok('row:%s' % ('+'.join(sorted(set((u or 'none').lower() for u in srow['units'].values())))), bool(report) or hand.shape[0] < s.shape[0] + 1)
            res.sample({'case': c if c['kind'] != 'units' else {'kind': 'units', 'pairs': [[UNITS[a], UNITS[b]] for a, b in c['pairs']], 'cont': c['cont']}})
    finally:
        shutil.rmtree(d, ignore_errors=True)
    return res
