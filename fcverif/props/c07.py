"""C07 -- ranges follow the data through unit changes, so saturation gating commutes (E1, lattice)."""
import itertools
import os
import shutil
import warnings

import numpy as np

from .. import fcsgen
from ..runner import Result, scratch

ID = 'C07'
LEVEL = 'exploration'
TECHNIQUE = ('exhaustive enumeration of an amplifier lattice (decades x offset x resolution, linear gains) and of a '
             'standard-curve lattice (slope x intercept), on integer samples holding events at both range limits and next to '
             'them (every channel value for small resolutions); range limits compared BITWISE with the converted limit events, '
             'and the default high/low gate compared before vs after conversion, for every channel subset')
RULE = ('one evaluation = one (sample, parameter point, channel subset) conversion with all its limit and gate comparisons; '
        'every lattice point exactly once (the seed shifts the phase of the continuous lattices, it does not sample); '
        'non-trivial = the conversion is not the identity on the limits; distinct by construction')
ASSUMPTIONS = ['a lattice over real-valued parameters: points between lattice points are not visited',
               'standard curves have the library\'s form sign(x)*exp(b)*|x|**m']
CHUNK = 4
EXHAUSTIVE = True

A0 = [0.5, 1, 2, 2.5, 3, 4, 4.5, 5, 8]
A1 = [0, 0.5, 1, 2, 10]
RES = [256, 1000, 1024, 4096, 65536, 262144]
GAINS = [None, 0.5, 1, 2, 3, 7.3, 100]


def events_for(r):
    if r <= 4096:
        ev = list(range(r))
        if r & (r - 1):
            # a range that is not a power of two: the reader keeps as many bits as the range needs, so values above the upper limit
            # r - 1 can legally occur in the file (e.g. 1000 .. 1023 for $PnR = 1000); they are beyond the limit before and after
            top = 1 << (r - 1).bit_length()
            ev += [r, r + 1, (r + top) // 2, top - 1]
        return ev
    base = [0, 1, 2, 3, r // 2, r - 3, r - 2, r - 1, 5, r // 3]
    return base + list(range(10, 400, 7))


def make_sample(res3, pne3, gains3=None, tag='', nozero=False):
    import FlowCal
    cols = [events_for(r) for r in res3]
    if nozero:
        cols = [[v for v in c if v != 0] for c in cols]          # saturated at the upper limit only
    n = max(len(c) for c in cols)
    cols = [c + [c[i % len(c)] for i in range(n - len(c))] for c in cols]
    events = [list(row) for row in zip(*cols)]
    bits = [16 if r <= 65536 else 32 for r in res3]
    extra = []
    for j, g in enumerate(gains3 or []):
        if g is not None:
            extra.append(('$P%dG' % (j + 1), repr(g)))
    lay = dict(datatype='I', bits=bits, ranges=list(res3), pne=list(pne3), events=events, byteord='1,2,3,4', extra=extra)
    buf, _ = fcsgen.build(lay)
    p = os.path.join(scratch(), 'c07%s.fcs' % tag)
    with open(p, 'wb') as f:
        f.write(buf)
    return FlowCal.io.FCSData(p)


def subsets(D):
    out = []
    for k in range(1, D + 1):
        out += [list(c) for c in itertools.combinations(range(D), k)]
    return out


def cases(tier, seed):
    # (A) log amplifiers: lattice a0 x a1 x r, three channels per file (three resolutions)
    a0s = list(A0)
    if tier == 'thorough':
        a0s += [0.25, 1.5, 3.5, 6, 7, 4.0 + 0.1 * ((seed % 9) + 1), 2.0 + 0.01 * ((seed * 7) % 97 + 1)]
    elif seed:
        a0s += [4.0 + 0.1 * ((seed % 9) + 1)]
    for a0 in a0s:
        for a1 in A1:
            for rs in ([256, 1000, 1024], [4096, 65536, 262144]):
                yield dict(kind='rfi-log', a0=a0, a1=a1, res=rs)
    # (B) linear amplifiers with gains
    for rs in ([256, 1000, 1024], [4096, 65536, 262144]):
        for gs in ([None, 0.5, 1], [2, 3, 7.3], [100, None, 2]):
            yield dict(kind='rfi-lin', gains=gs, res=rs)
    # (B2) amplifier settings given explicitly, as Python numbers and as NumPy scalars of several widths (events and limits must
    # go through the same arithmetic whatever the type of the parameters)
    for ptype in ('float', 'f8', 'f4', 'int', 'i8', 'i4'):
        for rs in ([256, 1000, 1024], [4096, 65536, 262144]):
            yield dict(kind='rfi-params', ptype=ptype, res=rs)
    # (C) standard-curve lattice
    step_m, step_b = (0.01, 0.1) if tier == 'quick' else (0.005, 0.05)
    ph = ((seed * 0.37) % 1.0)
    nm = int(round((1.25 - 0.85) / step_m))
    nb = int(round(7.0 / step_b))
    ms = [0.85 + (i + ph) * step_m for i in range(nm + 1)] if seed else [round(0.85 + i * step_m, 6) for i in range(nm + 1)]
    bs = [(j + ph) * step_b for j in range(nb + 1)] if seed else [round(j * step_b, 6) for j in range(nb + 1)]
    for m in ms:
        yield dict(kind='mef', m=m, bs=bs, rfi=('log' if int(round(m * 1000)) % 2 else 'lin'))
    # (C1b) other increasing standard curves (the property quantifies over increasing curves, not over the library's own family):
    # calibration lines with an offset, curves that are not zero at zero, steep and flat ones
    for fam in ('line', 'affine-power', 'sqrt-offset', 'exp', 'log1p-offset'):
        for rfi in ('lin', 'log'):
            yield dict(kind='mef-curves', family=fam, rfi=rfi)
    # (C2) standard curves returned by the library's own fit (not the closed form), on samples with and without events at zero
    for table in range(3):
        for nozero in (False, True):
            yield dict(kind='mef-fitted', table=table, nozero=nozero)
    # (C3) a calibration (with and without its figures) run on the RFI sample before that sample is converted: limits must still be
    # where the limit events are, before and after
    for plot in (False, True):
        for amp in ('lin', 'log'):
            yield dict(kind='calibration-history', plot=plot, amp=amp)
    # (C4) the conversions as the Excel workflow performs them (every pair of unit spellings on one integer file): the samples it returns
    # carry limits that are where the limit events of the raw file now are, and no event at or beyond them is left
    from . import c10 as _c10
    upairs = list(itertools.product(range(len(_c10.UNITS)), repeat=2))
    for i in range(0, len(upairs), 27):
        yield dict(kind='workflow', pairs=upairs[i:i + 27])
    # (D) generic transform with NumPy functions
    for fn in ('log10', 'sqrt', 'double', 'log10p1', 'exp2', 'log10-true', 'neg-inverse'):
        yield dict(kind='transform', fn=fn)


def bounds(tier, seed):
    return {'amplifier_lattice': [len(A0), len(A1), len(RES)], 'curve_lattice_step': (0.01, 0.1) if tier == 'quick' else (0.005, 0.05),
            'seed_phase': (seed * 0.37) % 1.0}


def bits(x):
    return np.float64(x).tobytes().hex()


def check_limits(res, what, sig, before, after, converted, one, D, gate_channels=None, allow_missing_low=False):
    """before/after: samples; converted: list of channel indices that were converted"""
    import FlowCal
    ok = True
    a = np.asarray(after)
    b = np.asarray(before)
    for ch in range(D):
        r0 = before.range(ch)
        r1 = after.range(ch)
        if ch not in converted:
            if bits(r0[0]) != bits(r1[0]) or bits(r0[1]) != bits(r1[1]):
                res.violation(sig + ':untouched-range', '%s: unconverted channel %d range changed from %r to %r' % (what, ch, r0, r1), one)
                ok = False
            if not np.array_equal(a[:, ch], b[:, ch].astype(np.float64)):
                res.violation(sig + ':untouched-values', '%s: unconverted channel %d values changed' % (what, ch), one)
                ok = False
            continue
        for side, lim in ((0, r0[0]), (1, r0[1])):
            rows = np.nonzero(b[:, ch] == lim)[0]
            if len(rows) == 0 and allow_missing_low and side == 0:
                continue
            if len(rows) == 0:
                # the samples are built with events at both limits of the raw file; if an earlier conversion left limits
                # that no event sits at any more, the limits did not follow the data
                res.violation(sig + ':limit-without-event', '%s: before this conversion channel %d has limit %r but no event has that value (events were placed at the limits of the raw file)' % (what, ch, lim), one)
                ok = False
                continue
            vals = set(bits(a[i, ch]) for i in rows)
            if vals != {bits(r1[side])}:
                res.violation(sig + ':limit-%s' % ('high' if side else 'low'),
                              '%s: channel %d %s range limit is %r but the event that sat at the old limit %r is now %r' % (
                                  what, ch, 'upper' if side else 'lower', r1[side], lim, float(a[rows[0], ch])), one)
                ok = False
    # ... also on the events that do not touch the widest upper limit nor the smallest lower limit of the gated channels (a gate that
    # looks at the extremes over all channels at once still has to drop what saturates a narrower channel)
    try:
        hi_all = [float(after.range(ch)[1]) for ch in range(D)]
        lo_all = [float(after.range(ch)[0]) for ch in range(D)]
        w = int(np.argmax(hi_all))
        keep = (a[:, w] < hi_all[w]) & np.all(a > min(lo_all), axis=1) & np.all(a < max(hi_all), axis=1)
        if keep.any() and not keep.all():
            bsub, asub = before[keep], after[keep]
            m0 = FlowCal.gate.high_low(bsub, list(range(D)), full_output=True).mask
            m1 = FlowCal.gate.high_low(asub, list(range(D)), full_output=True).mask
            if not np.array_equal(m0, m1):
                k = int(np.nonzero(m0 != m1)[0][0])
                res.violation(sig + ':gate-partial', '%s: on the events that reach neither the widest upper limit nor the smallest lower limit, high_low over all channels keeps %d events before and %d after the conversion; event %s is %s before, %s after' % (
                    what, int(m0.sum()), int(m1.sum()), np.asarray(bsub)[k].tolist(), 'kept' if m0[k] else 'dropped', 'kept' if m1[k] else 'dropped'), one)
                ok = False
    except Exception as e:
        res.violation(sig + ':gate-partial-raises:%s' % type(e).__name__, '%s: the default saturation gate on a row subset raised %s: %s' % (what, type(e).__name__, e), one)
        ok = False
    # the default saturation gate commutes with the conversion
    for chs in (gate_channels or [converted, list(range(D))]):
        try:
            m0 = FlowCal.gate.high_low(before, chs, full_output=True).mask
            m1 = FlowCal.gate.high_low(after, chs, full_output=True).mask
        except Exception as e:
            res.violation(sig + ':gate-raises:%s' % type(e).__name__, '%s: the default saturation gate on channels %r raised %s: %s' % (what, chs, type(e).__name__, e), one)
            ok = False
            continue
        if not np.array_equal(m0, m1):
            k = int(np.nonzero(m0 != m1)[0][0])
            res.violation(sig + ':gate', '%s: high_low(channels=%r) keeps %d events before and %d after the conversion; event %d = %s is %s before, %s after' % (
                what, chs, int(m0.sum()), int(m1.sum()), k, b[k].tolist(), 'kept' if m0[k] else 'dropped', 'kept' if m1[k] else 'dropped'), one)
            ok = False
    return ok


def check_empty(res, what, sig, before, after, convert, one):
    """a sample without events (e.g. everything gated out) still gets its limits converted"""
    e = before[:0]
    try:
        te = convert(e)
    except Exception as ex:
        res.violation(sig + ':empty-raises', '%s: converting the sample with its events removed raised %s: %s' % (what, type(ex).__name__, ex), one)
        return
    r1 = [bits(x) for r in te.range() for x in r]
    r2 = [bits(x) for r in after.range() for x in r]
    if te.shape[0] != 0 or r1 != r2:
        res.violation(sig + ':empty-limits', '%s: the same conversion of the sample without events gives limits %r, with events %r' % (what, te.range(), after.range()), one)


def curve(m, b):
    return lambda x: np.sign(x) * np.exp(b) * (np.abs(x) ** m)


FNS = {'log10': lambda x: np.log10(x + 1.0) if False else np.log10(np.maximum(x, 0) + 0.5),
       'sqrt': np.sqrt, 'double': lambda x: x * 2.0, 'log10p1': lambda x: np.log10(x + 1.0),
       'exp2': lambda x: 2.0 ** (x / 1024.0),
       # increasing laws that diverge at the lower limit 0: the event sitting there goes to -inf, and so does the limit
       'log10-true': lambda x: np.log10(x), 'neg-inverse': lambda x: -1.0 / np.asarray(x, dtype=float)}


FORMS = ('pos', 'name', 'neg', 'mixed', 'tuple')


def scalar_forms(sub, n=3):
    """a single channel may also be named without a list: by position (0 included), by name, from the end"""
    if len(sub) != 1:
        return []
    j = sub[0]
    return [j, 'CH%d' % (j + 1), j - n]


def spell(sub, form, n=3):
    """the channel list sub (positions) written by position, by name, by position counted from the last channel, or mixed"""
    if form == 'pos':
        return list(sub)
    if form == 'name':
        return ['CH%d' % (j + 1) for j in sub]
    if form == 'neg':
        return [j - n for j in sub]
    if form == 'tuple':
        return tuple(('CH%d' % (j + 1), j)[(i + j) % 2] for i, j in enumerate(sub))
    return [(j - n, 'CH%d' % (j + 1), j)[(i + j) % 3] for i, j in enumerate(sub)]


def run_workflow(c, res):
    import FlowCal
    from . import c10 as _c10
    ui = FlowCal.excel_ui
    _WF[0] += 1
    dd = os.path.join(scratch(), 'c07_wf_%d' % _WF[0])
    os.makedirs(dd, exist_ok=True)
    try:
        wb, insts, beads, samples, hist = _c10.build_experiment(dict(kind='units', pairs=c['pairs'], cont='int', hist=False), dd)
        it = ui.read_table(wb, 'Instruments', 'ID')
        bt = ui.read_table(wb, 'Beads', 'ID')
        st = ui.read_table(wb, 'Samples', 'ID')
        np.random.seed(1)
        bs, fx, outs = ui.process_beads_table(bt, it, base_dir=dd, verbose=False, plot=False, full_output=True)
        ui.add_beads_stats(bt, bs, outs)
        got = ui.process_samples_table(st, it, mef_transform_fxns=fx, beads_table=bt, base_dir=dd, verbose=False, plot=False)
        inst = insts[0]
        raw = FlowCal.io.FCSData(os.path.join(dd, samples[0]['file']))
        for srow in samples:
            g = got.get(srow['id'])
            one = dict(c, pairs=[c['pairs'][samples.index(srow)]])
            for ch in inst['fl']:
                u = (srow['units'].get(ch) or '').strip().lower()
                what = 'Excel workflow, sample row with units %r: channel %s' % (srow['units'], ch)
                if isinstance(g, Exception) or g is None:
                    res.violation('workflow:row-failed', '%s: the row failed with %s: %s' % (what, type(g).__name__, g), one)
                    break
                # the two limit events of the raw file, taken through the row's conversions by hand
                probe = raw[:2].copy()
                probe[0, :] = [r_[0] for r_ in raw.range()]
                probe[1, :] = [r_[1] for r_ in raw.range()]
                if u in ('rfi', 'a.u.', 'au', 'mef'):
                    probe = FlowCal.transform.to_rfi(probe, ch)
                if u == 'mef':
                    probe = fx[srow['beads']](probe, ch)
                want = [bits(float(probe[0, ch])), bits(float(probe[1, ch]))]
                have = [bits(float(x)) for x in g.range(ch)]
                if have != want:
                    res.violation('workflow:limits', '%s has limits %r, the events at the raw limits %r are now at %r' % (
                        what, list(g.range(ch)), raw.range(ch), [float(probe[0, ch]), float(probe[1, ch])]), one)
                    break
                if u:
                    v = np.asarray(g[:, ch], dtype=float)
                    lo_, hi_ = [float(x) for x in g.range(ch)]
                    if v.size and (v.min() <= lo_ or v.max() >= hi_):
                        res.violation('workflow:saturated-kept', '%s: events at or beyond the limits %r are still in the returned sample (min %r, max %r)' % (
                            what, [lo_, hi_], float(v.min()), float(v.max())), one)
                        break
            else:
                res.ok('workflow', True)
        res.sample({'workflow rows': len(samples), 'units': [s_['units'] for s_ in samples[:3]]})
    finally:
        shutil.rmtree(dd, ignore_errors=True)


_WF = [0]


def run_case(c):
    import FlowCal
    res = Result()
    k = c['kind']
    if k == 'workflow':
        with warnings.catch_warnings():
            warnings.simplefilter('ignore')
            try:
                run_workflow(c, res)
            except Exception as e:
                res.violation('workflow:raises:%s' % type(e).__name__, 'the Excel workflow on a well-formed generated experiment raised %s: %s' % (type(e).__name__, e), dict(c))
        return res
    with warnings.catch_warnings():
        warnings.simplefilter('ignore')
        if k == 'rfi-log':
            pne = ['%r,%r' % (c['a0'], c['a1'])] * 3
            d = make_sample(c['res'], pne)
            for sub in ([c['sub']] if 'sub' in c else subsets(3)):
                for spelled in list(FORMS) + ['scalar:%d' % i for i in range(len(scalar_forms(sub)))]:
                    chans = spell(sub, spelled) if not spelled.startswith('scalar:') else scalar_forms(sub)[int(spelled[7:])]
                    one = dict(c, sub=sub)
                    t = FlowCal.transform.to_rfi(d, chans)
                    what = 'to_rfi(log amplifier a0=%r a1=%r, resolutions %r, channels=%r)' % (c['a0'], c['a1'], c['res'], chans)
                    if check_limits(res, what, 'rfi-log', d, t, sub, one, 3):
                        res.ok('rfi-log', True)
                    # a block of channels taken with a slice after the conversion carries the converted limits of exactly those channels
                    if spelled == 'pos':
                        for sl in (slice(1, 3), slice(2, None), slice(None, None, -1), slice(1, None, 2)):
                            blk = t[:, sl]
                            want_r = [[bits(x) for x in t.range(j)] for j in range(3)[sl]]
                            got_r = [[bits(x) for x in r_] for r_ in blk.range()]
                            if got_r != want_r:
                                res.violation('rfi-log:slice-limits', '%s, then [:, %r]: the block has limits %r, its channels had %r' % (what, sl, blk.range(), [t.range(j) for j in range(3)[sl]]), one)
                                break
                    check_empty(res, what, 'rfi-log', d, t, lambda x: FlowCal.transform.to_rfi(x, chans), one)
            # channels converted in several calls, each on the result of the previous one: the channels converted earlier keep the limits
            # they got, the one converted now gets its own
            if 'sub' not in c:
                for first, second in (([0], [1]), ([1], [2, 0]), ([0, 2], [1]), ([2], [0])):
                    t1 = FlowCal.transform.to_rfi(d, first)
                    t2 = FlowCal.transform.to_rfi(t1, second)
                    what = 'to_rfi(to_rfi(sample, %r), %r) (log amplifier a0=%r a1=%r, resolutions %r)' % (first, second, c['a0'], c['a1'], c['res'])
                    if check_limits(res, what, 'rfi-log:chain', t1, t2, second, dict(c), 3) and check_limits(res, what + ' [whole chain]', 'rfi-log:chain', d, t2, sorted(first + second), dict(c), 3):
                        res.ok('rfi-log:chain', True)
            res.sample({'kind': k, 'a0': c['a0'], 'a1': c['a1'], 'resolutions': c['res'], 'channel_subsets': subsets(3)})
        elif k == 'rfi-lin':
            d = make_sample(c['res'], ['0,0'] * 3, c['gains'])
            # a channel named twice is converted twice -- events and limits alike (linear amplifiers: the values stay finite)
            for sub in ([c['sub']] if 'sub' in c else subsets(3) + [[0, 0], [1, 2, 1], [2, 0, 2, 0]]):
                one = dict(c, sub=sub)
                for spelled in FORMS:
                    chans = spell(sub, spelled)
                    t = FlowCal.transform.to_rfi(d, chans)
                    what = 'to_rfi(linear amplifier gains %r, resolutions %r, channels=%r)' % (c['gains'], c['res'], chans)
                    if check_limits(res, what, 'rfi-lin', d, t, sub, one, 3):
                        res.ok('rfi-lin', any(c['gains'][j] not in (None, 1) for j in sub))
                    check_empty(res, what, 'rfi-lin', d, t, lambda x: FlowCal.transform.to_rfi(x, chans), one)
            res.sample({'kind': k, 'gains': c['gains'], 'resolutions': c['res']})
        elif k == 'rfi-params':
            conv = {'float': float, 'f8': np.float64, 'f4': np.float32, 'int': int, 'i8': np.int64, 'i4': np.int32}[c['ptype']]
            isint = c['ptype'] in ('int', 'i8', 'i4')
            d = make_sample(c['res'], ['0,0'] * 3)
            menus = [((4, 1), 2), ((3, 2), 5)] if isint else [((4, 1), 2), ((2.5, 0.1), 0.5), ((4.5, 1.0), 7.3), ((1.7, 3.0), 1.0)]
            for (a0, a1), gain in menus:
                for sub in subsets(3):
                    for mode in ('log', 'lin', 'mixed'):
                        at = [((conv(a0), conv(a1)) if (mode == 'log' or (mode == 'mixed' and i % 2 == 0)) else (conv(0), conv(0))) for i in range(len(sub))]
                        gains = [conv(gain)] * len(sub)
                        for rform in ('own', 'typed'):
                            rr = [c['res'][j] for j in sub]
                            if rform == 'typed':
                                rr = [conv(x) if not (c['ptype'] == 'f4' and x > 2 ** 24) else x for x in rr]
                            what = 'to_rfi(channels=%r, amplification_type=%r, amplifier_gain=%r, resolution=%r) with parameters of type %s' % (sub, at, gains, rr, c['ptype'])
                            one = dict(c)
                            try:
                                t = FlowCal.transform.to_rfi(d, sub, amplification_type=at, amplifier_gain=gains, resolution=rr)
                            except Exception as e:
                                res.violation('rfi-params:raises:%s' % type(e).__name__, '%s raised %s: %s' % (what, type(e).__name__, e), one)
                                continue
                            if check_limits(res, what, 'rfi-params', d, t, sub, one, 3):
                                res.ok('rfi-params', True)
            res.sample({'kind': k, 'parameter type': c['ptype'], 'resolutions': c['res']})
        elif k == 'mef':
            m = c['m']
            if c['rfi'] == 'log':
                d0 = make_sample([1024, 1024, 256], ['4,1', '4.5,0', '0,0'])
            else:
                d0 = make_sample([1024, 4096, 1000], ['0,0', '0,0', '0,0'], [1, 2, None])
            d = FlowCal.transform.to_rfi(d0)
            for b in ([c['b']] if 'b' in c else c['bs']):
                scs = [curve(m, b), curve(m + 0.013, b + 0.21), curve(m - 0.011, max(b - 0.17, 0.0))]
                for sub in ([c['sub']] if 'sub' in c else ([0], [1], [0, 1], [0, 1, 2], [2, 0])):
                    one = dict(kind='mef', m=m, b=b, bs=[b], sub=sub, rfi=c['rfi'])
                    # names and non-negative positions may be mixed freely between the request and the curve list; positions counted
                    # from the last channel are matched literally by to_mef (a mismatch is refused, never passed through), so they
                    # are used on both sides
                    for spelled, scform in (('pos', 'pos'), ('name', 'pos'), ('pos', 'name'), ('name', 'name'), ('neg', 'neg')):
                        chans = spell(sub, spelled)
                        t = FlowCal.transform.to_mef(d, chans, scs, spell([0, 1, 2], scform))
                        what = 'to_mef(curve slope %r intercept %r, channels=%r) after to_rfi (%s amplifiers)' % (m, b, chans, c['rfi'])
                        if check_limits(res, what, 'mef', d, t, sorted(set(sub)), one, 3):
                            res.ok('mef', True)
            res.sample({'kind': k, 'm': m, 'b_values': len(c['bs']), 'subsets': [[0], [1], [0, 1], [0, 1, 2], [2, 0]]})
        elif k == 'mef-curves':
            fam = c['family']
            pars = [(3.0, 25.0), (0.5, 0.0), (1.0, 1e-3), (120.0, 7.5), (2.0, 1000.0)]
            mk = {'line': lambda a, o: (lambda x: a * x + o),
                  'affine-power': lambda a, o: (lambda x: np.sign(x) * a * np.abs(x) ** 1.1 + o),
                  'sqrt-offset': lambda a, o: (lambda x: a * np.sqrt(np.abs(x)) * np.sign(x) + o),
                  'exp': lambda a, o: (lambda x: a * np.exp(np.asarray(x, dtype=float) / 4000.0) + o),
                  'log1p-offset': lambda a, o: (lambda x: a * np.log1p(np.abs(x)) * np.sign(x) + o)}[fam]
            if c['rfi'] == 'log':
                d0 = make_sample([1024, 1024, 256], ['4,1', '4.5,0', '0,0'])
            else:
                d0 = make_sample([1024, 4096, 1000], ['0,0', '0,0', '0,0'], [1, 2, None])
            for base_label, d in (('after to_rfi (%s amplifiers)' % c['rfi'], FlowCal.transform.to_rfi(d0)), ('on the raw sample', d0)):
                for pi, (a, o) in enumerate(pars):
                    scs = [mk(a, o), mk(a * 1.5, o + 2.0), mk(a * 0.7, o * 0.5)]
                    for sub in ([0], [1], [2], [0, 1, 2], [2, 0]):
                        one = dict(c)
                        for spelled in ('pos', 'name'):
                            chans = spell(sub, spelled)
                            what = 'to_mef(%s curves with scale %r offset %r, channels=%r) %s' % (fam, a, o, chans, base_label)
                            try:
                                t = FlowCal.transform.to_mef(d, chans, scs, [0, 1, 2])
                            except Exception as e:
                                res.violation('mef-curves:raises:%s' % type(e).__name__, '%s raised %s: %s' % (what, type(e).__name__, e), one)
                                continue
                            if check_limits(res, what, 'mef-curves:' + fam, d, t, sorted(set(sub)), one, 3):
                                res.ok('mef-curves', True)
            res.sample({'kind': k, 'family': fam, 'parameters': pars})
        elif k == 'mef-fitted':
            tables = [([12.0, 55.0, 260.0, 1300.0, 6000.0], [0.0, 646.0, 4827.0, 47609.0, 273006.0]),
                      ([3.0, 9.5, 30.0, 88.0, 270.0, 810.0], [120.0, 400.0, 1300.0, 4200.0, 14000.0, 45000.0]),
                      ([1.5, 20.0, 300.0, 5000.0], [10.0, 150.0, 2500.0, 38000.0])]
            rfi_t, mef_t = tables[c['table']]
            sc = FlowCal.mef.fit_beads_autofluorescence(np.array(rfi_t), np.array(mef_t))[0]
            for rfi_kind, pne, gains in (('lin', ['0,0'] * 3, [1, 2.5, None]), ('log', ['4,1', '4.5,0', '0,0'], None)):
                d0 = make_sample([1024, 4096, 1000] if rfi_kind == 'lin' else [1024, 1024, 256], pne, gains, tag='f', nozero=c['nozero'])
                d = FlowCal.transform.to_rfi(d0)
                for sub in ([0], [1], [0, 1, 2], [2, 0]):
                    one = dict(c)
                    t = FlowCal.transform.to_mef(d, sub, [sc, sc, sc], [0, 1, 2])
                    what = 'to_mef(curve fitted by fit_beads_autofluorescence to table %d, channels=%r) after to_rfi (%s amplifiers, %s)' % (
                        c['table'], sub, rfi_kind, 'no event at zero' if c['nozero'] else 'events at both limits')
                    if check_limits(res, what, 'mef-fitted', d, t, sorted(set(sub)), one, 3, allow_missing_low=c['nozero']):
                        res.ok('mef-fitted', True)
                    check_empty(res, what, 'mef-fitted', d, t, lambda x: FlowCal.transform.to_mef(x, sub, [sc, sc, sc], [0, 1, 2]), one)
                    # gate then convert == convert then gate, as samples (values, ranges)
                    g1 = FlowCal.transform.to_mef(FlowCal.gate.high_low(d, sub), sub, [sc, sc, sc], [0, 1, 2])
                    g2 = FlowCal.gate.high_low(t, sub)
                    if not (np.array_equal(np.asarray(g1), np.asarray(g2)) and [bits(x) for r in g1.range() for x in r] == [bits(x) for r in g2.range() for x in r]):
                        res.violation('mef-fitted:order', '%s: gating before the conversion and after it give different samples (%d vs %d events; values bitwise equal: %s)' % (
                            what, g1.shape[0], g2.shape[0], g1.shape == g2.shape and bool(np.array_equal(np.asarray(g1), np.asarray(g2)))), one)
            res.sample({'kind': k, 'bead_table': c['table'], 'no_zero_events': c['nozero']})
        elif k == 'calibration-history':
            import matplotlib
            matplotlib.use('Agg')
            import matplotlib.pyplot as plt
            if c['amp'] == 'lin':
                d0 = make_sample([1024, 4096, 1000], ['0,0'] * 3, [1, 4.0, None], tag='h')
            else:
                d0 = make_sample([1024, 1024, 256], ['4,1', '4.5,0', '0,0'], tag='h')
            d = FlowCal.transform.to_rfi(d0)
            before = [bits(x) for r in d.range() for x in r]
            n = d.shape[0]
            order = np.argsort(np.asarray(d[:, 0]), kind='stable')
            labels = np.empty(n, dtype=int)
            labels[order] = np.arange(n) * 4 // n           # four stub populations by brightness of channel 0
            scs = {0: curve(1.05, 2.0), 1: curve(0.97, 3.1)}
            calls = []

            def fit(fl_rfi, fl_mef, calls=calls):
                j = len(calls)
                calls.append(j)
                return (scs[j], scs[j], [1.0, 2.0, 0.0], 'stub', ['m', 'b', 'auto'])
            what = 'get_transform_fxn(plot=%r) on a sample converted to RFI (%s amplifiers), then to_mef' % (c['plot'], c['amp'])
            try:
                tf = FlowCal.mef.get_transform_fxn(d, [[0.0, 100.0, 1000.0, 10000.0], [0.0, 200.0, 2000.0, 20000.0]], [0, 1],
                                                   clustering_fxn=lambda data, n_clusters, **kw: labels, clustering_channels=[0, 1],
                                                   selection_fxn=None, fitting_fxn=fit, plot=c['plot'], plot_dir=scratch() if c['plot'] else None,
                                                   plot_filename='c07beads')
            except Exception as e:
                res.violation('calibration-history:raises:%s' % type(e).__name__, '%s raised %s: %s' % (what, type(e).__name__, e), dict(c))
                return res
            finally:
                plt.close('all')
            after = [bits(x) for r in d.range() for x in r]
            if after != before:
                res.violation('calibration-history:limits-changed', '%s: the calibration changed the range limits of the sample it was given to %r' % (what, d.range()), dict(c))
                return res
            for sub in ([0], [1], [0, 1]):
                t = tf(d, sub)
                if check_limits(res, what + ' (channels %r)' % sub, 'calibration-history', d, t, sub, dict(c), 3):
                    res.ok('calibration-history', True)
            res.sample({'kind': k, 'plot': c['plot'], 'amplifiers': c['amp']})
        elif k == 'transform':
            d = make_sample([1024, 4096, 256], ['0,0'] * 3)
            fn = FNS[c['fn']]
            for sub in subsets(3):
                for spelled in list(FORMS) + ['scalar:%d' % i for i in range(len(scalar_forms(sub)))]:
                    chans = spell(sub, spelled) if not spelled.startswith('scalar:') else scalar_forms(sub)[int(spelled[7:])]
                    t = FlowCal.transform.transform(d, chans, fn)
                    what = 'transform(np %s, channels=%r)' % (c['fn'], chans)
                    if check_limits(res, what, 'transform:' + c['fn'], d, t, sub, dict(c), 3):
                        res.ok('transform', True)
                # the wrapper pattern: default channels fixed by the wrapper, an explicit selection by the caller (the selection wins),
                # and no selection (the defaults are converted)
                for dflt in ([0], [1, 2], [2, 0, 1], 1):
                    dcols = [dflt] if isinstance(dflt, int) else list(dflt)
                    for sel, conv in ((sub, sub), (None, sorted(dcols))) if sub == [0] else ((sub, sub),):
                        what = 'transform(np %s, channels=%r, def_channels=%r)' % (c['fn'], sel, dflt)
                        try:
                            t = FlowCal.transform.transform(d, sel, fn, def_channels=dflt)
                        except Exception as e:
                            res.violation('transform-def:raises:%s' % type(e).__name__, '%s raised %s: %s' % (what, type(e).__name__, e), dict(c))
                            continue
                        if check_limits(res, what, 'transform-def:' + c['fn'], d, t, conv, dict(c), 3):
                            res.ok('transform', True)
            res.sample({'kind': k, 'function': c['fn']})
    return res
