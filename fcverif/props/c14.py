"""C14 -- TEXT keywords and values are returned exactly as written, or rejected (E1)."""
import io
import itertools
import os
import warnings

from .. import fcsgen, textref
from ..runner import Result, scratch

ID = 'C14'
LEVEL = 'exploration'
TECHNIQUE = ('exhaustive enumeration of all strings over {delimiter, a, b} up to a length bound for primary '
             'and supplemental segments, decided against an independent left-to-right reference tokenizer; '
             'plus exhaustive encode/decode of all small keyword dictionaries, every printable delimiter, '
             'and whole files with primary + supplemental TEXT + ANALYSIS')
RULE = ('strings: every string of length <= L over the 3-symbol alphabet exactly once (primary segments start '
        'with the delimiter by definition); dictionaries: every list of <= 2 pairs over the stated string set; '
        'non-trivial = contains at least one delimiter besides the leading one; distinct by construction')
ASSUMPTIONS = ['the reference tokenizer fcverif/textref.py states the FCS escaping rule (self-tested on hand examples)',
               'the one tolerated ill-formed ending (even delimiter run after a complete value) may either raise or warn and '
               'return the pairs of the string without its final delimiter, up to trailing delimiters of the last value']
CHUNK = 1

D = '/'


def strs(alpha, maxlen):
    """non-empty strings over alpha not starting with the delimiter alpha[-1]"""
    out = []
    for n in range(1, maxlen + 1):
        for t in itertools.product(alpha, repeat=n):
            if t[0] == alpha[-1]:
                continue
            out.append(''.join(t))
    return out


def cases(tier, seed):
    L = 13 if tier == 'quick' else 15
    k = 4 if tier == 'quick' else 5
    # primary segments read with an explicitly given delimiter: strings that do not start with it must be refused
    for p in itertools.product('/ab', repeat=3):
        yield dict(kind='explicit', prefix=''.join(p), L=9 if tier == 'quick' else 11)
    for supp in (False, True):
        yield dict(kind='strings', supp=supp, prefix=None, L=k - 1)         # all strings shorter than k
        for p in itertools.product('/ab', repeat=k):
            p = ''.join(p)
            if not supp and p[0] != '/':
                continue
            yield dict(kind='strings', supp=supp, prefix=p, L=L)
    # the same with symbols a lenient reader might take for padding (blank, NUL, line end) next to the delimiter and a letter
    for alpha in ('/ a\x00', '/ \n\t', '/a \r'):
        for supp in (False, True):
            yield dict(kind='strings-alpha', supp=supp, alpha=alpha, L=7 if tier == 'quick' else 9)
    # dictionaries
    yield dict(kind='dict1', maxlen=3)
    S = strs('xy/', 2 if tier == 'quick' else 3)
    for i, k1 in enumerate(S):
        yield dict(kind='dict2', maxlen=2 if tier == 'quick' else 3, k1=k1)
    yield dict(kind='delims')
    # keywords and values with blanks, tabs, line ends around and inside them (returned exactly as written)
    for blank in (' ', '\t', '\n', '\x0c'):
        yield dict(kind='dict-blank', blank=blank, maxlen=3)
    # characters above 127 (ISO-8859-1 text: accents, the degree sign, no-break space), in pairs that would also be valid UTF-8
    yield dict(kind='dict-latin1')
    # whole files whose supplemental TEXT segment is ill-formed: refused, not loaded without its keywords
    yield dict(kind='files-bad-stext', tier=tier)
    yield dict(kind='files-empty-stext', tier=tier)
    yield dict(kind='files-raw-analysis', tier=tier)
    yield dict(kind='files-bigoffsets', tier=tier)
    for delim in '/|\\, *~:;!#%&()+-.<=>?@[]^_`{}\'"' + 'aZ':   # not '$': standard keywords start with it
        yield dict(kind='files', delim=delim, tier=tier)


def bounds(tier, seed):
    return {'max_string_length': 13 if tier == 'quick' else 15,
            'dictionary_string_length': 2 if tier == 'quick' else 3}


def call(s, supp, delim=D, context=False, onepast=False):
    import FlowCal
    b = s.encode('latin-1')
    off = 0
    if onepast:
        # the segment is the last thing in the file and its end offset is written one past its last byte (the tolerated convention)
        with warnings.catch_warnings(record=True) as w:
            warnings.simplefilter('always')
            try:
                t, dl = FlowCal.io.read_fcs_text_segment(io.BytesIO(b), 0, len(b), delim=delim if supp else None, supplemental=supp)
                return 'ok', t, len(w)
            except Exception as e:
                return 'err', type(e).__name__, len(w)
    if context:
        # the same segment inside a larger file: other bytes (a delimiter among them) right before and right after it
        dl_ = delim.encode('latin-1')
        off = 2
        b = b'a' + dl_ + b + dl_ + b'a'
    with warnings.catch_warnings(record=True) as w:
        warnings.simplefilter('always')
        try:
            t, dl = FlowCal.io.read_fcs_text_segment(io.BytesIO(b), off, off + len(s) - 1,
                                                     delim=delim if supp else None, supplemental=supp)
            return 'ok', t, len(w)
        except Exception as e:
            return 'err', type(e).__name__, len(w)


def judge(res, s, supp, delim=D):
    st, tokens, tol = textref.tokenize(s, delim, supp)
    out, val, nwarn = call(s, supp, delim)
    one = dict(kind='one', s=s, supp=supp, delim=delim)
    nontriv = s.count(delim) > 1
    if s:
        op = call(s, supp, delim, onepast=True)
        if op != (out, val, nwarn):
            res.violation('end-convention:%s' % ('supp' if supp else 'primary'),
                          'segment %r at the end of the file reads as %r with its end offset on its last byte and as %r with the end offset one past it (the tolerated convention)' % (s, (out, val), op[:2]), one)
            return
    ctx = call(s, supp, delim, context=True)
    if ctx != (out, val, nwarn):
        res.violation('context-dependent:%s' % ('supp' if supp else 'primary'),
                      'segment %r read on its own gives %r, the same bytes between other bytes of a file (%r before, %r after) give %r' % (
                          s, (out, val), 'a' + delim, delim + 'a', ctx[:2]), one)
        return
    if st == textref.ACCEPT and len(tokens) % 2 == 0:
        exp = dict(zip(tokens[0::2], tokens[1::2]))
        if out != 'ok':
            res.violation('wellformed-refused:%s' % ('supp' if supp else 'primary'),
                          'well-formed segment %r refused with %s; it encodes %r' % (s, val, exp), one)
        elif val != exp:
            res.violation('repaired:%s' % ('supp' if supp else 'primary'),
                          'segment %r read as %r, it encodes %r' % (s, val, exp), one)
        else:
            res.ok('accept', nontriv)
    elif st == textref.TOLERATED:
        if out == 'err':
            res.ok('tolerated-ending:refused', nontriv)
            return
        exp_ok = len(tol) % 2 == 0
        exp = dict(zip(tol[0::2], tol[1::2])) if exp_ok else None

        def strip_last(dct, toks):
            if not toks:
                return dct
            return dct

        same = False
        if exp_ok:
            if val == exp:
                same = True
            elif tol:
                # compare up to trailing delimiters of the last value
                lastk = tol[-2]
                e2 = dict(exp)
                e2[lastk] = e2[lastk].rstrip(delim)
                v2 = dict(val)
                if lastk in v2:
                    v2[lastk] = v2[lastk].rstrip(delim)
                same = (v2 == e2)
        if not same:
            res.violation('tolerated-ending-repaired:%s' % ('supp' if supp else 'primary'),
                          'ill-formed ending %r read as %r; the string without its final delimiter encodes %r' % (s, val, exp), one)
        elif nwarn == 0:
            res.violation('tolerated-ending-silent:%s' % ('supp' if supp else 'primary'),
                          'ill-formed ending %r accepted as %r without a warning' % (s, val), one)
        else:
            res.ok('tolerated-ending:warned', nontriv)
            if val != exp:
                res.notes['tolerated ending: escaped delimiter(s) of the last value dropped (accepted by the property)'] += 1
    else:
        if out == 'ok':
            res.violation('illformed-accepted:%s' % ('supp' if supp else 'primary'),
                          'segment %r cannot be split into keyword/value pairs but was read as %r' % (s, val), one)
        else:
            res.ok('reject', nontriv)


def run_case(c):
    res = Result()
    k = c['kind']
    if k == 'one':
        judge(res, c['s'], c['supp'], c.get('delim', D))
        return res
    if k == 'explicit':
        import FlowCal
        p = c['prefix']
        n_ = 0
        for n in range(0, c['L'] - len(p) + 1):
            for t in itertools.product('/ab', repeat=n):
                s = p + ''.join(t)
                b = s.encode('latin-1')
                with warnings.catch_warnings(record=True):
                    warnings.simplefilter('always')
                    try:
                        got = ('ok', FlowCal.io.read_fcs_text_segment(io.BytesIO(b), 0, len(b) - 1, delim=D, supplemental=False)[0])
                    except Exception as e:
                        got = ('err', type(e).__name__)
                    try:
                        ref_ = ('ok', FlowCal.io.read_fcs_text_segment(io.BytesIO(b), 0, len(b) - 1, delim=None, supplemental=False)[0])
                    except Exception as e:
                        ref_ = ('err', type(e).__name__)
                one = dict(kind='explicit-one', s=s)
                if s[0] != D:
                    if got[0] == 'ok':
                        res.violation('explicit-delim:not-refused', 'primary segment %r does not start with the delimiter %r but was read as %r' % (s, D, got[1]), one)
                    else:
                        res.ok('explicit:refused', True)
                elif got != ref_:
                    res.violation('explicit-delim:differs', 'primary segment %r read with explicit delimiter gives %r, with the delimiter taken from its first byte %r' % (s, got, ref_), one)
                else:
                    res.ok('explicit:same', True)
        res.sample({'prefix': p, 'max_length': c['L'], 'read': 'primary with explicit delim'})
        return res
    if k == 'explicit-one':
        return run_case(dict(kind='explicit', prefix=c['s'], L=len(c['s'])))
    if k == 'strings':
        supp = c['supp']
        if c['prefix'] is None:
            for n in range(0, c['L'] + 1):
                for t in itertools.product('/ab', repeat=n):
                    s = ''.join(t)
                    if not supp and s and s[0] != '/':
                        continue
                    judge(res, s, supp)
            res.sample({'strings_up_to_length': c['L'], 'supplemental': supp})
        else:
            p = c['prefix']
            for n in range(0, c['L'] - len(p) + 1):
                for t in itertools.product('/ab', repeat=n):
                    judge(res, p + ''.join(t), supp)
            res.sample({'prefix': p, 'max_length': c['L'], 'supplemental': supp, 'example': p + 'a//b/'})
        return res
    if k == 'strings-alpha':
        supp = c['supp']
        for n in range(0, c['L'] + 1):
            for t in itertools.product(c['alpha'], repeat=n):
                s = ''.join(t)
                if not supp and s and s[0] != '/':
                    continue
                judge(res, s, supp)
        res.sample({'strings_up_to_length': c['L'], 'alphabet': repr(c['alpha']), 'supplemental': supp})
        return res
    if k in ('dict1', 'dict2'):
        S = strs('xy/', c['maxlen'])
        if k == 'dict1':
            lists = ([(a, b)] for a in S for b in S)
        else:
            k1 = c['k1']
            lists = ([(k1, v1), (k2, v2)] for v1 in S for k2 in S if k2 != k1 for v2 in S)
        for pairs in lists:
            for supp, leading in ((False, True), (True, True), (True, False)):
                for junk in ('', 'xx'):
                    s = textref.encode(pairs, D, leading=leading) + junk
                    assert textref.parse(s, D, supp) == dict(pairs), (s, pairs)   # reference self-check
                    judge(res, s, supp)
        res.sample({'pairs': [('x/', 'y'), ('xy', '/'.join('xy'))], 'encoded': textref.encode([('x/', 'y')], D)})
        return res
    if k == 'dict-blank':
        S = strs('x' + c['blank'] + '/', c['maxlen'])
        for a in S:
            for b in S:
                for supp, leading in ((False, True), (True, True), (True, False)):
                    s = textref.encode([(a, b)], D, leading=leading)
                    assert textref.parse(s, D, supp) == {a: b}, (s, a, b)   # reference self-check
                    judge(res, s, supp)
        # two pairs, blanks at either end of each value
        bl = c['blank']
        for v1 in ('x', bl + 'x', 'x' + bl, bl + 'x' + bl, bl, bl + bl, 'x' + bl + '/'):
            for v2 in ('y', bl + 'y', 'y' + bl, bl, '/' .join(['y', bl])):
                for k2 in ('k2', 'k' + bl + '2', 'k2' + bl):
                    pairs = [('k1', v1), (k2, v2)]
                    for supp, leading in ((False, True), (True, True), (True, False)):
                        s = textref.encode(pairs, D, leading=leading)
                        assert textref.parse(s, D, supp) == dict(pairs), (s, pairs)
                        judge(res, s, supp)
        res.sample({'alphabet': ['x', c['blank'], '/'], 'max_length': c['maxlen']})
        return res
    if k == 'dict-latin1':
        hi = ['\xc3', '\xa9', '\xc2', '\xa0', '\xb0', '\xe9', '\xff', '\x80', '\xdf', '\xbf']
        S = [a + b for a in hi + ['x'] for b in hi + ['x', '']]
        for a in S:
            for b in S[::3] + [a]:
                for supp, leading in ((False, True), (True, False)):
                    s = textref.encode([('K' + a, b + 'v')], D, leading=leading)
                    judge(res, s, supp)
        for code in range(128, 256):
            for code2 in (0xa0, 0xa9, 0xbf, 0x80):
                s = textref.encode([('NOTE', chr(code) + chr(code2)), ('k' + chr(code), 'plain')], D)
                judge(res, s, False)
        # keywords that differ only in letter case, standard-looking ($...) and not, are different keywords and come back as written
        for keys in (['$cyt', '$CYT'], ['$Op', '$OP', '$op'], ['$p1s', 'Note', 'NOTE'], ['$Custom/Key', '$CUSTOM/KEY'], ['$btim'], ['ka', 'kA', 'Ka', 'KA']):
            pairs = [(k_, 'v%d' % i) for i, k_ in enumerate(keys)]
            for dd in ('/', '|', '\x0c'):
                pp = [(k_.replace('/', dd), v) for k_, v in pairs]
                for supp, leading in ((False, True), (True, True), (True, False)):
                    s = textref.encode(pp, dd, leading=leading)
                    assert textref.parse(s, dd, supp) == dict(pp)
                    judge(res, s, supp, dd)
        res.sample({'alphabet': 'bytes 0x80..0xff in pairs', 'example': 'Jos\xc3\xa9 / 37\xc2\xb0C'})
        return res
    if k == 'files-bad-stext':
        bads = []
        for n in range(1, 6 if c.get('tier') == 'quick' else 7):
            for t in itertools.product('/ab', repeat=n):
                sraw = ''.join(t)
                st, tokens, tt = textref.tokenize(sraw, D, True)
                if st == textref.ACCEPT and tokens is not None and len(tokens) % 2 == 0:
                    continue
                bads.append((sraw, st))
        for i, (sraw, st) in enumerate(bads):
            lay = dict(version=('FCS3.0', 'FCS3.1')[i % 2], datatype='I', byteord='1,2,3,4', bits=[16, 16], ranges=[1024, 1024],
                       events=[[1, 2], [3, 4]], delim=D, extra=[('K1', 'v1')], stext=[('S', 'x')], stext_raw=sraw, stext_pos=('after', 'before')[(i // 2) % 2])
            buf, info = fcsgen.build(dict(lay))
            path = os.path.join(scratch(), 'c14b.fcs')
            with open(path, 'wb') as f:
                f.write(buf)
            one = dict(kind='files-bad-stext-one', raw=sraw)
            if c.get('only') is not None and c['only'] != sraw:
                continue
            try:
                with warnings.catch_warnings(record=True) as w:
                    warnings.simplefilter('always')
                    import FlowCal
                    dd = FlowCal.io.FCSData(path)
            except Exception:
                res.ok('file-bad-stext:refused', True)
                continue
            if st == textref.TOLERATED and any('ill-formed' in str(x.message) for x in w):
                res.ok('file-bad-stext:tolerated-with-warning', True)
                continue
            res.violation('file-bad-stext:loaded', 'a file whose supplemental TEXT segment is %r (cannot be split into keyword/value pairs) was loaded; keywords beyond the primary ones: %r' % (
                sraw, {k_: v for k_, v in dd.text.items() if k_ not in dict(info['primary_pairs'])}), one)
        res.sample({'ill-formed supplemental segments': len(bads), 'alphabet': '/ a b'})
        return res
    if k == 'files-bigoffsets':
        # offsets of 10,000,000 and more fill all eight columns of a HEADER field (no blank between neighbouring fields): the ANALYSIS
        # segment begins just below that mark and ends above it, or lies entirely above it
        for version in ('FCS2.0', 'FCS3.0'):
            for target in (9999995, 10000000, 12345678):
                for which in ('analysis', 'data'):
                    lay = dict(version=version, datatype='I', byteord='1,2,3,4', bits=[16, 16], ranges=[1024, 1024], events=[[1, 2], [3, 4]], delim=D,
                               extra=[('K1', 'v1')], analysis=[('GATE1', '12.5'), ('region/1', 'P1/')], analysis_offsets='header')
                    _, info0 = fcsgen.build(dict(lay))
                    base0 = info0['analysis'][0] if which == 'analysis' else info0['data_begin']
                    lay['pad_before'] = {which: target - base0}
                    judge_file(res, lay, dict(kind='file', layout=lay))
        res.sample({'offsets': [9999995, 10000000, 12345678], 'segments': ['analysis', 'data']})
        return res
    if k == 'files-raw-analysis':
        # every short byte string over {primary delimiter, another delimiter-like symbol, a letter} as the ANALYSIS segment of a file: read
        # as exactly the pairs it encodes under the file's delimiter, or not at all (an error, or the documented empty result) -- never
        # as other pairs
        import FlowCal
        nfile = 0
        for n in range(1, 6 if c.get('tier') == 'quick' else 8):
            for t in itertools.product('/|a', repeat=n):
                raw = ''.join(t)
                if c.get('only') is not None and c['only'] != raw:
                    continue
                for an_off, version in (('header', 'FCS3.0'), ('header', 'FCS2.0'), ('text', 'FCS3.1')):
                    lay = dict(version=version, datatype='I', byteord='1,2,3,4', bits=[16, 16], ranges=[1024, 1024], events=[[1, 2], [3, 4]], delim=D,
                               extra=[('K1', 'v1')], analysis_raw=raw, analysis_offsets=an_off)
                    buf, info = fcsgen.build(dict(lay))
                    path = os.path.join(scratch(), 'c14a.fcs')
                    with open(path, 'wb') as f:
                        f.write(buf)
                    nfile += 1
                    one = dict(kind='files-raw-analysis', tier='thorough', only=raw)
                    st, tokens, tol = textref.tokenize(raw, D, True)
                    well = st == textref.ACCEPT and tokens is not None and len(tokens) % 2 == 0
                    allowed = [dict(zip(tokens[0::2], tokens[1::2]))] if well else [{}]
                    if st == textref.TOLERATED and tol is not None and len(tol) % 2 == 0:
                        e2 = dict(zip(tol[0::2], tol[1::2]))
                        allowed.append(e2)
                        if tol:
                            e3 = dict(e2)
                            e3[tol[-2]] = e3[tol[-2]].rstrip(D)
                            allowed.append(e3)
                    try:
                        with warnings.catch_warnings(record=True) as w:
                            warnings.simplefilter('always')
                            ff = FlowCal.io.FCSFile(path)
                            got = dict(ff.analysis)
                    except Exception:
                        if well:
                            res.violation('file-raw-analysis:refused', 'a file whose ANALYSIS segment %r encodes %r was refused' % (raw, allowed[0]), one)
                        else:
                            res.ok('file-raw-analysis:refused', True)
                        continue
                    if got in allowed:
                        res.ok('file-raw-analysis:' + ('read' if well else 'empty'), True)
                    else:
                        res.violation('file-raw-analysis:repaired', 'a file (%s, ANALYSIS offsets in %s) whose ANALYSIS segment is %r (%s under the delimiter %r) was read with analysis %r' % (
                            version, an_off.upper(), raw, 'encodes %r' % allowed[0] if well else 'cannot be split into keyword/value pairs', D, got), one)
        res.sample({'raw ANALYSIS segments': nfile, 'alphabet': '/ | a'})
        return res
    if k == 'files-empty-stext':
        # a supplemental window that holds no keyword at all (reserved space filled with blanks, or no byte): the file reads as its
        # primary keywords, and its ANALYSIS segment as written
        n = 0
        for dd in ('/', '|', '\x0c', '*', ','):
            for raw in ('   ', ' ', '', ' ' * 40):
                for an in ([('GATE1', '12.5'), ('region' + dd + '1', 'P1' + dd)], None):
                    for an_off in ('header', 'text'):
                        for spos in ('after', 'before'):
                            for version in ('FCS3.0', 'FCS3.1'):
                                lay = dict(version=version, datatype='I', byteord='1,2,3,4', bits=[16, 16], ranges=[1024, 1024], events=[[1, 2], [3, 4]],
                                           delim=dd, extra=[('K1', 'v1')], stext_raw=raw, stext_pos=spos, analysis=an or [], analysis_offsets=an_off)
                                if raw == '':
                                    lay['stext_zero_length'] = True
                                judge_file(res, lay, dict(kind='file', layout=lay))
                                n += 1
        res.sample({'files with an empty supplemental window': n, 'windows': ['blanks', 'no bytes']})
        return res
    if k == 'files-bad-stext-one':
        return run_case(dict(kind='files-bad-stext', tier='thorough', only=c['raw']))
    if k == 'delims':
        for code in range(1, 127):
            d = chr(code)
            others = [ch for ch in 'kv' if ch != d] or ['q']
            a, b = (others + ['q', 'r'])[:2]
            if d in (a, b):
                a, b = 'q', 'r'
            dicts = [[(a, b)], [(a + d, b)], [(a, b + d)], [(a + d + b, b + d + d + a)], [(a, b), (b + d, a + d + d)],
                     [(('#' if d != '#' else '%') + a, b * 3), (b, a), (a + b, d.join([a, b, a]))]]
            for pairs in dicts:
                for supp, leading in ((False, True), (True, True), (True, False)):
                    s = textref.encode(pairs, d, leading=leading)
                    assert textref.parse(s, d, supp) == dict(pairs), (s, pairs)   # reference self-check
                    judge(res, s, supp, d)
        res.sample({'delimiters': 'chr(1)..chr(126)', 'dictionaries_each': 6})
        return res
    if k == 'files':
        return run_files(c, res)
    raise ValueError(k)


def run_files(c, res):
    import FlowCal
    d = c['delim']
    S = [s.replace('/', d) for s in ('x', 'x/', 'x/y', 'x//', 'xy')]
    if d in 'xy':
        S = [s.replace('x', 'p').replace('y', 'q').replace('\0', d) for s in
             (t.replace(d, '\0') for t in S)]
    combos = []
    for kx in S:
        for vx in S:
            combos.append(([('K' + kx, vx)], [('S' + vx, kx)], [('A' + kx, vx + kx)]))
    if c.get('tier') == 'quick':
        combos = combos[::2]
    for version in ('FCS3.0', 'FCS2.0', 'FCS3.1'):
        for extra, stext, an in combos:
            for spos in ('after', 'before'):
                for lead in (True, False):
                    lay = dict(version=version, datatype='I', byteord='1,2,3,4', bits=[16, 16], ranges=[1024, 1024],
                               events=[[1, 2], [3, 4]], delim=d, extra=extra, analysis=an, analysis_leading=lead)
                    if version != 'FCS2.0':
                        lay.update(stext=stext, stext_pos=spos, stext_leading=lead)
                    elif spos == 'before':
                        continue
                    one = dict(kind='file', layout=lay)
                    judge_file(res, lay, one)
    # every order of the four segments in the file (the standard fixes none), offsets of ANALYSIS in the HEADER or only in TEXT
    import itertools
    for version in ('FCS3.0', 'FCS2.0', 'FCS3.1'):
        segs = ['text', 'stext', 'data', 'analysis'] if version != 'FCS2.0' else ['text', 'data', 'analysis']
        for order in itertools.permutations(segs):
            for extra, stext, an in combos[1::6]:
                for an_off in (('header', 'text') if version != 'FCS2.0' else ('header',)):
                    for lead in (True, False):
                        lay = dict(version=version, datatype='I', byteord='1,2,3,4', bits=[16, 16], ranges=[1024, 1024], pad=(0, 5)[lead],
                                   events=[[1, 2], [3, 4]], delim=d, extra=extra, analysis=an, analysis_leading=lead, analysis_offsets=an_off,
                                   seg_order=list(order) + (['stext'] if version == 'FCS2.0' else []))
                        if version != 'FCS2.0':
                            lay.update(stext=stext, stext_leading=lead)
                        judge_file(res, lay, dict(kind='file', layout=lay))
    # offsets of the supplemental segment with different digit counts (begin below a power of ten, end above it), written zero-padded
    # and blank-padded on either side within their fields; also with the supplemental segment in front of the primary one
    for version in ('FCS3.0', 'FCS3.1'):
        for fmt in ('zero', 'left', 'right'):
            if d == ' ' and fmt != 'zero':
                continue          # blank padding inside a value would have to be escaped when the delimiter is a blank
            for target in (95, 995, 9995):
                for order in (None, ['stext', 'text', 'data', 'analysis']):
                    extra, stext, an = combos[(target + len(fmt)) % len(combos)]
                    lay = dict(version=version, datatype='I', byteord='1,2,3,4', bits=[16, 16], ranges=[1024, 1024], events=[[1, 2], [3, 4]], delim=d,
                               extra=extra, analysis=an, stext=stext + [('LONGER', 'value ' * 3)], offset_format=fmt)
                    if order:
                        lay['seg_order'] = order
                    _, info0 = fcsgen.build(dict(lay))
                    shift = target - info0['stext'][0]
                    if shift < 0:
                        continue
                    lay['pad_before'] = {'stext': shift}
                    _, info1 = fcsgen.build(dict(lay))
                    assert info1['stext'][0] == target and len(str(info1['stext'][1])) > len(str(target)), info1['stext']
                    judge_file(res, lay, dict(kind='file', layout=lay))
    res.sample({'delimiter': d, 'example_extra': combos[1][0], 'stext': combos[1][1], 'analysis': combos[1][2], 'segment orders': 'all 24 (3.x) / 6 (2.0)',
                'offset formats': 'zero / left / right padded, begin and end with different digit counts'})
    return res


def judge_file(res, lay, one):
    import FlowCal
    buf, info = fcsgen.build(dict(lay))
    path = os.path.join(scratch(), 'c14.fcs')
    with open(path, 'wb') as f:
        f.write(buf)
    exp = dict(info['primary_pairs'])
    exp.update(dict(lay.get('stext') or []))
    try:
        with warnings.catch_warnings(record=True) as w:
            warnings.simplefilter('always')
            dd = FlowCal.io.FCSData(path)
    except Exception as e:
        res.violation('file-refused:%s' % type(e).__name__, 'well-formed file (delimiter %r) refused: %s: %s' % (
            lay['delim'], type(e).__name__, e), one)
        return
    # the same file through an open file object the caller has already looked into, and through that object a second time
    try:
        with warnings.catch_warnings():
            warnings.simplefilter('ignore')
            with open(path, 'rb') as fh:
                fh.read(3)
                f1 = FlowCal.io.FCSFile(fh)
                f2 = FlowCal.io.FCSFile(fh)
        for label, ff in (('an open file object that was read from before', f1), ('the same file object a second time', f2)):
            if dict(ff.text) != dict(dd.text) or dict(ff.analysis) != dict(dd.analysis):
                res.violation('file-handle', 'read through %s the keywords / ANALYSIS differ from those read by path' % label, one)
                return
    except Exception as e:
        res.violation('file-handle-refused:%s' % type(e).__name__, 'well-formed file (delimiter %r) refused when read through an open file object that was read from before: %s: %s' % (
            lay['delim'], type(e).__name__, e), one)
        return
    if dd.text != exp:
        diff = {k: (dd.text.get(k), exp.get(k)) for k in set(dd.text) | set(exp) if dd.text.get(k) != exp.get(k)}
        res.violation('file-text', 'keywords differ (read, written): %r' % (diff,), one)
    elif dd.analysis != dict(lay['analysis']):
        res.violation('file-analysis', 'ANALYSIS read as %r, written %r' % (dd.analysis, lay['analysis']), one)
    else:
        res.ok('file', True)


_run_case = run_case


def run_case(c):       # noqa: F811 -- accept the stand-alone 'file' replay descriptor as well
    if c['kind'] == 'file':
        res = Result()
        judge_file(res, c['layout'], c)
        return res
    return _run_case(c)
