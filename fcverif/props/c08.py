"""C08 -- every gate returns exactly its documented predicate, applied as a mask (E1)."""
import itertools
import math
import os
import warnings
from fractions import Fraction

import numpy as np

from .. import fcsgen
from ..fingerprint import fp, diff
from ..runner import Result, scratch

ID = 'C08'
LEVEL = 'exploration'
TECHNIQUE = ('exhaustive enumeration: start_end over all (N, num_start, num_end) in a box; high_low over all small '
             'matrices over {0,1,2,3} x containers x channel forms x all (high, low) threshold pairs from a menu; '
             'ellipse over a full 5x5 event grid x centres x semi-axes x angles x log flag; each against an exact '
             'predicate written with fractions/math')
RULE = ('one evaluation = one gate call (full and short form together); every parameter combination of the stated '
        'boxes exactly once; non-trivial = the expected mask is neither all-true nor all-false, or an expected refusal')
ASSUMPTIONS = ['rotated-ellipse boundary points whose exact quadratic form is within 1e-9 of 1 may fall either way',
               'value alphabet {0,1,2,3} with range [0,3] puts events on, next to and between every default threshold']
CHUNK = 1


def load(M, dt='I', R=4):
    import FlowCal
    D = len(M[0]) if M else 2
    if dt == 'I':
        lay = dict(datatype='I', bits=[8] * D, ranges=[R] * D, events=M, byteord='1,2,3,4')
    else:
        lay = dict(datatype=dt, bits=[32 if dt == 'F' else 64] * D, ranges=[R] * D, byteord='1,2,3,4',
                   events=[[fcsgen.float_bits(float(x), dt) for x in r] for r in M])
    buf, _ = fcsgen.build(lay)
    p = os.path.join(scratch(), 'c08.fcs')
    with open(p, 'wb') as f:
        f.write(buf)
    return FlowCal.io.FCSData(p)


def cases(tier, seed):
    yield dict(kind='start_end', maxn=6 if tier == 'quick' else 9)
    maxn = 2 if tier == 'quick' else 3
    for D in (1, 2):
        for N in range(0, maxn + 1):
            tot = 4 ** (N * D)
            step = 8
            for s in range(0, tot, step):
                yield dict(kind='high_low', N=N, D=D, start=s, stop=min(tot, s + step))
    for ci, center in enumerate([(2, 2), (0, 0), (1.5, 2.5)]):
        for log in (False, True):
            yield dict(kind='ellipse', center=center, log=log, tier=tier)
    yield dict(kind='ellipse_types')
    yield dict(kind='ellipse_shell')
    yield dict(kind='ellipse_refuse')


def bounds(tier, seed):
    return {'high_low_max_events': 2 if tier == 'quick' else 3, 'start_end_max_events': 6 if tier == 'quick' else 9}


def check_gate_output(res, sig, what, data, out_full, out_short, exp_mask, one, nontrivial=None):
    """common clauses: mask == predicate, gated == data[mask] incl. metadata, short == full"""
    if not (hasattr(out_full, 'mask') and hasattr(out_full, 'gated_data')):
        res.violation(sig + ':full-form', '%s: with full_output=True the gate returned a %s without mask / gated_data' % (what, type(out_full).__name__), one)
        return False
    mask = np.asarray(out_full.mask)
    if mask.dtype != bool or mask.shape != (data.shape[0],):
        res.violation(sig + ':maskshape', '%s: mask dtype %s shape %s' % (what, mask.dtype, mask.shape), one)
        return False
    if mask.tolist() != exp_mask:
        res.violation(sig + ':mask', '%s: mask %s, predicate gives %s' % (what, mask.astype(int).tolist(), [int(x) for x in exp_mask]), one)
        return False
    want = data[np.array(exp_mask, dtype=bool)]
    d1 = diff(fp(out_full.gated_data), fp(want))
    if d1:
        res.violation(sig + ':gated', '%s: gated data differs from data[mask]: %s' % (what, d1), one)
        return False
    d2 = diff(fp(out_short), fp(out_full.gated_data))
    if d2:
        res.violation(sig + ':short', '%s: short form differs from full form: %s' % (what, d2), one)
        return False
    if type(out_short) is not type(data):
        res.violation(sig + ':type', '%s: gated data is %s, input is %s' % (what, type(out_short).__name__, type(data).__name__), one)
        return False
    nt = (any(exp_mask) and not all(exp_mask)) if nontrivial is None else nontrivial
    res.ok(sig, nt)
    return True


def run_start_end(c, res):
    import FlowCal
    single = c.get('single')
    for N in ([single[0]] if single else range(0, c['maxn'] + 1)):
        M = [[i + 1, 2 * i] for i in range(N)]
        conts = {'arr': np.array(M, dtype=np.int64).reshape(N, 2), 'fcs': load(M, R=64)}
        for ns in ([single[1]] if single else range(-2, c['maxn'] + 2)):
            for ne in ([single[2]] if single else range(-2, c['maxn'] + 2)):
                s, e = max(ns, 0), max(ne, 0)
                for cn, data in conts.items():
                    one = dict(kind='start_end', single=[N, ns, ne])
                    what = 'start_end(%s N=%d, num_start=%d, num_end=%d)' % (cn, N, ns, ne)
                    try:
                        full = FlowCal.gate.start_end(data, ns, ne, full_output=True)
                        short = FlowCal.gate.start_end(data, ns, ne)
                    except Exception as ex:
                        if s + e > N:
                            res.ok('start_end:refused')
                        else:
                            res.violation('start_end:raises:%s' % cn, '%s raised %s: %s' % (what, type(ex).__name__, ex), one)
                        continue
                    if s + e > N:
                        res.violation('start_end:not-refused:%s' % cn, '%s returned %d events; more events to drop than exist' % (
                            what, short.shape[0]), one)
                        continue
                    exp = [s <= i < N - e for i in range(N)]
                    check_gate_output(res, 'start_end:' + cn, what, data, full, short, exp, one)
    res.sample({'gate': 'start_end', 'N': '0..%d' % c.get('maxn', 0), 'num_start/num_end': '-2..N+1'})


TH = (None, 0, 1, 1.5, 2, 3, float('inf'), -1, 300)          # -1 and 300 lie outside the 8-bit type of the integer sample
TH_JSON = (None, 0, 1, 1.5, 2, 3, 'inf', -1, 300)


def hl_forms(D, named):
    if not named:
        # plain arrays: a channel position computed with NumPy (np.argmax, an element of np.arange) is an integer too
        extra = [np.int64(0), np.intp(D - 1), np.int32(-1), [np.int64(D - 1), 0]]
        return _hl_forms(D, named) + extra
    return _hl_forms(D, named)


def _hl_forms(D, named):
    if D == 1:
        f = [None, 0, [0], -1]
        if named:
            f += ['CH1', ['CH1']]
    else:
        f = [None, 0, 1, [0], [1, 0], [0, 1], -1, (1, 0), [-1, -2], (-2,)]
        if named:
            f += ['CH2', ['CH2', 'CH1'], [0, 'CH2'], ('CH1', 1), ('CH2',)]
    return f


def run_high_low(c, res):
    import FlowCal
    N, D = c['N'], c['D']
    single = c.get('single')
    for idx in ([single['idx']] if single else range(c['start'], c['stop'])):
        cells, k = [], idx
        for _ in range(N * D):
            cells.append(k % 4)
            k //= 4
        M = [cells[i * D:(i + 1) * D] for i in range(N)]
        conts = {}
        conts['arr:i'] = np.array(M, dtype=np.int64).reshape(N, D)
        conts['arr:f'] = np.array(M, dtype=np.float64).reshape(N, D)
        if N > 0 or D == 2:
            conts['fcs:I'] = load(M if N else [], 'I') if (N or D == 2) else None
            conts['fcs:F'] = load(M if N else [], 'F') if (N or D == 2) else None
            # a converted sample: every value and both range limits moved up by one (the defaults are the limits the sample has NOW)
            if conts['fcs:I'] is not None:
                conts['fcs:shift'] = FlowCal.transform.transform(conts['fcs:I'], list(range(conts['fcs:I'].shape[1])), lambda x: x + 1.0)
        for cn, data in conts.items():
            if single and cn != single['cont']:
                continue
            if data is None:
                continue
            named = cn.startswith('fcs')
            Dd = data.shape[1]
            for form in hl_forms(Dd, named):
                if form is None:
                    sel = list(range(Dd))
                elif isinstance(form, (list, tuple)):
                    sel = [int(f) if isinstance(f, (int, np.integer)) else int(f[2:]) - 1 for f in form]
                else:
                    sel = [int(form) if isinstance(form, (int, np.integer)) else int(form[2:]) - 1]
                sel = [s % Dd for s in sel]
                for hi_i, hi in enumerate(TH):
                    for lo_i, lo in enumerate(TH):
                        if single and [hi_i, lo_i, repr(form)] != single['arg']:
                            continue
                        lo_v = -lo if lo == float('inf') else lo      # the "no limit" low threshold is -inf
                        one = dict(kind='high_low', N=N, D=D, single=dict(idx=idx, cont=cn, arg=[hi_i, lo_i, repr(form)]))
                        what = 'high_low(%s %s, channels=%r, high=%r, low=%r)' % (cn, M, form, hi, lo_v)
                        try:
                            full = FlowCal.gate.high_low(data, form, high=hi, low=lo_v, full_output=True)
                            short = FlowCal.gate.high_low(data, form, high=hi, low=lo_v)
                        except Exception as ex:
                            res.violation('high_low:raises:%s:%s' % (cn, type(ex).__name__),
                                          '%s raised %s: %s' % (what, type(ex).__name__, ex), one)
                            continue
                        exp = []
                        for i in range(N):
                            keep = True
                            for j in sel:
                                off = 1 if cn == 'fcs:shift' else 0
                                h = hi if hi is not None else (3 + off if named else float('inf'))
                                l = lo_v if lo_v is not None else (0 + off if named else float('-inf'))
                                x = M[i][j] + off
                                keep = keep and (l < x < h)
                            exp.append(keep)
                        if check_gate_output(res, 'high_low:' + cn, what, data, full, short, exp, one):
                            # the same thresholds passed by position, in the documented order (data, channels, high, low, full_output)
                            try:
                                posn = FlowCal.gate.high_low(data, form, hi, lo_v, True)
                                if not np.array_equal(np.asarray(posn.mask), np.asarray(full.mask)):
                                    res.violation('high_low:positional', '%s: thresholds passed by position (high, low) give mask %s, by keyword %s' % (
                                        what, np.asarray(posn.mask).astype(int).tolist(), np.asarray(full.mask).astype(int).tolist()), one)
                            except Exception as ex:
                                res.violation('high_low:positional-raises:%s' % type(ex).__name__, '%s with positional thresholds raised %s: %s' % (what, type(ex).__name__, ex), one)
    res.sample({'gate': 'high_low', 'events': M if N else [], 'thresholds': list(TH_JSON), 'forms': [repr(f) for f in hl_forms(D, True)]})


ANGLES = [0.0, math.pi / 6, math.pi / 4, math.pi / 2, math.pi, -math.pi / 3, 2.0]
AXES = [0.5, 1, 2]


def run_ellipse(c, res):
    import FlowCal
    log = c['log']
    pts = [(x, y) for x in range(5) for y in range(5)]
    if c.get('tier') == 'thorough':
        pts += [(x + 0.5, y + 0.25) for x in range(4) for y in range(4)]
    vals = [[10.0 ** x, 10.0 ** y] if log else [float(x), float(y)] for x, y in pts]
    nonpos = []
    if log:
        # events without a log10 coordinate (zero / negative values) are not inside any ellipse in log space
        nonpos = [[0.0, 100.0], [-3.0, 100.0], [100.0, 0.0], [100.0, -0.5], [0.0, 0.0], [-1.0, -1.0]]
    # third column so that channel selection matters
    arr = np.array([[v[0], -7.0, v[1]] for v in vals + nonpos])
    lay = dict(datatype='D', bits=[64] * 3, ranges=[100000] * 3, byteord='4,3,2,1',
               events=[[fcsgen.float_bits(x, 'D') for x in r] for r in arr.tolist()])
    buf, _ = fcsgen.build(lay)
    p = os.path.join(scratch(), 'c08e.fcs')
    with open(p, 'wb') as f:
        f.write(buf)
    d = FlowCal.io.FCSData(p)
    cx, cy = c['center']
    single = c.get('single')
    conts = [('arr', arr, [0, 2]), ('fcs', d, ['CH1', 'CH3']), ('fcs-swap', d, [2, 'CH1']),
             # the same channel twice (two channels are specified; both coordinates of an event are then its value in that channel)
             ('arr-same', arr, [0, 0]), ('fcs-same', d, ['CH1', 0])]
    if all(float(x) == int(x) and x >= 0 for v in vals for x in v):
        # the same events held in integer types (signed array, unsigned loaded sample)
        iarr = np.array([[int(v[0]), 3, int(v[1])] for v in vals], dtype=np.int64)
        ilay = dict(datatype='I', bits=[32] * 3, ranges=[2 ** 20] * 3, byteord='1,2,3,4', events=iarr.tolist())
        ibuf, _ = fcsgen.build(ilay)
        ip = os.path.join(scratch(), 'c08ei.fcs')
        with open(ip, 'wb') as f:
            f.write(ibuf)
        conts += [('arr-int', iarr, [0, 2]), ('fcs-int', FlowCal.io.FCSData(ip), ['CH1', 'CH3'])]
    for cn, data, chans in conts:
        for a in AXES:
            for b in AXES:
                for ti, th in enumerate(ANGLES):
                    if single and single != [cn, a, b, ti]:
                        continue
                    one = dict(kind='ellipse', center=c['center'], log=log, single=[cn, a, b, ti], tier=c.get('tier'))
                    what = 'ellipse(%s, channels=%r, center=%r, a=%r, b=%r, theta=%r, log=%r)' % (cn, chans, c['center'], a, b, th, log)
                    swap = cn == 'fcs-swap'
                    try:
                        # the flags as a caller may have computed them: Python booleans, NumPy booleans (scale == 'log'), 0 / 1
                        logf = [log, np.bool_(log), int(log), np.array([log])[0]][(ti + AXES.index(a)) % 4]
                        full = FlowCal.gate.ellipse(data, chans, center=c['center'], a=a, b=b, theta=th, log=logf, full_output=[True, np.bool_(True), 1][ti % 3])
                        short = FlowCal.gate.ellipse(data, chans, center=c['center'], a=a, b=b, theta=th, log=logf)
                    except Exception as ex:
                        res.violation('ellipse:raises:%s' % cn, '%s raised %s: %s' % (what, type(ex).__name__, ex), one)
                        continue
                    ct, st = math.cos(th), math.sin(th)
                    exp, amb = [], []
                    for (x, y) in pts:
                        if swap:
                            x, y = y, x
                        if cn.endswith('-same'):
                            y = x
                        dx, dy = x - cx, y - cy
                        if th == 0.0:
                            q = (Fraction(dx) / Fraction(a)) ** 2 + (Fraction(dy) / Fraction(b)) ** 2
                            exp.append(q <= 1)
                            amb.append(False)
                        else:
                            xr = ct * dx + st * dy
                            yr = -st * dx + ct * dy
                            q = (xr / a) ** 2 + (yr / b) ** 2
                            exp.append(q <= 1)
                            amb.append(abs(q - 1) < 1e-9)
                    if not cn.endswith('-int'):          # the integer containers hold the grid only
                        for v_ in nonpos:
                            if cn.endswith('-same') and v_[0] > 0:
                                # only the first value counts here; it is positive, so the event has coordinates (log10 x, log10 x)
                                lx = math.log10(v_[0])
                                dx, dy = lx - cx, lx - cy
                                xr, yr = ct * dx + st * dy, -st * dx + ct * dy
                                q = (xr / a) ** 2 + (yr / b) ** 2
                                exp.append(q <= 1)
                                amb.append(abs(q - 1) < 1e-9)
                            else:
                                exp.append(False)
                                amb.append(False)
                    got = np.asarray(full.mask).tolist()
                    if len(got) == len(exp):
                        exp = [g if am else e for g, e, am in zip(got, exp, amb)]
                    if not check_gate_output(res, 'ellipse:' + cn, what, data, full, short, exp, one):
                        continue
                    # contour traces the same ellipse
                    cn_ = full.contour
                    okc = isinstance(cn_, list) and len(cn_) == 1 and np.asarray(cn_[0]).ndim == 2 and np.asarray(cn_[0]).shape[1] == 2
                    if not okc:
                        res.violation('ellipse:contour-form', '%s: contour is not a list with one (k,2) array' % what, one)
                        continue
                    P = np.asarray(cn_[0], dtype=float)
                    worst = 0.0
                    quad = set()
                    for px, py in P.tolist():
                        if log:
                            if px <= 0 or py <= 0:
                                worst = float('inf')
                                break
                            px, py = math.log10(px), math.log10(py)
                        dx, dy = px - cx, py - cy
                        xr = ct * dx + st * dy
                        yr = -st * dx + ct * dy
                        q = (xr / a) ** 2 + (yr / b) ** 2
                        worst = max(worst, abs(q - 1))
                        quad.add((xr >= 0, yr >= 0))
                    closes = np.allclose(P[0], P[-1], rtol=1e-9, atol=1e-9)
                    if worst > 1e-6 or len(quad) < 4 or not closes or len(P) < 8:
                        res.violation('ellipse:contour', '%s: contour does not trace the gate ellipse (max |q-1| = %g, quadrants %d, closed %s)' % (
                            what, worst, len(quad), closes), one)
                    else:
                        res.ok('ellipse:contour', True)
    res.sample({'gate': 'ellipse', 'events': '5x5 grid' + (' as 10**grid' if log else ''), 'center': c['center'],
                'a,b': AXES, 'theta': ANGLES})


def run_ellipse_types(c, res):
    """semi-axes and centre given as Python numbers and as NumPy scalars of several widths, on coordinates in the hundreds (the
    square of a narrow integer semi-axis does not fit its type)"""
    import FlowCal
    pts = [(x, y) for x in range(0, 1001, 100) for y in range(0, 1001, 100)] + [(333, 512), (650, 420), (841, 500), (500, 199), (159, 500)]
    conts = [('arr-float', np.array([[float(x), -7.0, float(y)] for x, y in pts])), ('arr-int', np.array([[x, 3, y] for x, y in pts], dtype=np.int64)),
             ('arr-uint16', np.array([[x, 3, y] for x, y in pts], dtype=np.uint16))]
    conv = {'int': int, 'float': float, 'u2': np.uint16, 'i2': np.int16, 'i4': np.int32, 'i8': np.int64, 'f4': np.float32, 'f8': np.float64}
    cx, cy = 500, 500
    for tn, cv in conv.items():
        for a, b in ((341, 300), (300, 341), (190, 50), (255, 256)):
            for th in (0.0, math.pi / 6, math.pi / 2):
                for cn, data in conts:
                    one = dict(c)
                    what = 'ellipse(%s, channels=[0, 2], center=(%d, %d), a=%s(%d), b=%s(%d), theta=%r)' % (cn, cx, cy, tn, a, tn, b, th)
                    try:
                        with np.errstate(all='ignore'):
                            full = FlowCal.gate.ellipse(data, [0, 2], center=(cv(cx), cv(cy)), a=cv(a), b=cv(b), theta=th, full_output=True)
                            short = FlowCal.gate.ellipse(data, [0, 2], center=(cv(cx), cv(cy)), a=cv(a), b=cv(b), theta=th)
                    except Exception as ex:
                        res.violation('ellipse-types:raises:%s' % tn, '%s raised %s: %s' % (what, type(ex).__name__, ex), one)
                        continue
                    ct, st = math.cos(th), math.sin(th)
                    exp, amb = [], []
                    for (x, y) in pts:
                        dx, dy = x - cx, y - cy
                        xr, yr = ct * dx + st * dy, -st * dx + ct * dy
                        q = (xr / a) ** 2 + (yr / b) ** 2
                        exp.append(q <= 1)
                        amb.append(abs(q - 1) < 1e-6)
                    got = np.asarray(full.mask).tolist() if hasattr(full, 'mask') else []
                    if len(got) == len(exp):
                        exp = [g if am else e for g, e, am in zip(got, exp, amb)]
                    if check_gate_output(res, 'ellipse-types:' + tn, what, data, full, short, exp, one):
                        P = np.asarray(full.contour[0], dtype=float)
                        worst = 0.0
                        for px, py in P.tolist():
                            dx, dy = px - cx, py - cy
                            xr, yr = ct * dx + st * dy, -st * dx + ct * dy
                            worst = max(worst, abs((xr / a) ** 2 + (yr / b) ** 2 - 1))
                        if worst > 1e-4:
                            res.violation('ellipse-types:contour:%s' % tn, '%s: contour does not trace the gate ellipse (max |q-1| = %g)' % (what, worst), one)
                        else:
                            res.ok('ellipse-types', True)
    res.sample({'gate': 'ellipse', 'parameter types': sorted(conv), 'axes': [(341, 300), (300, 341), (190, 50), (255, 256)]})


def run_ellipse_shell(c, res):
    """events a relative 1e-10 and 1e-6 inside and outside the ellipse (far above rounding, far below any sensible tolerance): the gate is
    the closed ellipse, nothing more"""
    import FlowCal
    radii = [0.0, 0.5, 1 - 1e-6, 1 - 1e-10, 1 + 1e-10, 1 + 1e-6, 1.5, 3.0]
    phis = [0.0, 0.7, 2.0, 3.9, 5.5, math.pi / 2, math.pi]
    for (cx, cy, a, b, th) in ((0.0, 0.0, 1.0, 1.0, 0.0), (3.0, -2.0, 2.0, 0.5, 0.0), (10.0, 20.0, 4.0, 7.0, 0.6), (500.0, 500.0, 341.0, 300.0, -1.1), (2.5, 2.5, 0.25, 1.75, 2.0)):
        for log in (False, True):
            pts, exp = [], []
            for r in radii:
                for ph in phis:
                    u, v = a * r * math.cos(ph), b * r * math.sin(ph)
                    x = cx + u * math.cos(th) - v * math.sin(th)
                    y = cy + u * math.sin(th) + v * math.cos(th)
                    pts.append([10.0 ** (x / 100.0) if log else x, -7.0, 10.0 ** (y / 100.0) if log else y])
                    exp.append(r <= 1)
            arr = np.array(pts)
            kw = dict(center=(cx / 100.0, cy / 100.0) if log else (cx, cy), a=a / 100.0 if log else a, b=b / 100.0 if log else b, theta=th, log=log)
            what = 'ellipse(events at relative radii %r, %s)' % (radii, ', '.join('%s=%r' % kv for kv in sorted(kw.items())))
            try:
                full = FlowCal.gate.ellipse(arr, [0, 2], full_output=True, **kw)
                short = FlowCal.gate.ellipse(arr, [0, 2], **kw)
            except Exception as ex:
                res.violation('ellipse-shell:raises', '%s raised %s: %s' % (what, type(ex).__name__, ex), dict(c))
                continue
            if check_gate_output(res, 'ellipse-shell', what, arr, full, short, exp, dict(c)):
                res.ok('ellipse-shell', True)
    res.sample({'gate': 'ellipse', 'relative radii': radii, 'directions': len(phis)})


def run_ellipse_refuse(res):
    import FlowCal
    # degenerate inputs: no events, one event
    for n in (0, 1):
        a0 = np.arange(3. * n).reshape(n, 3) + 1.0
        for log in (False, True):
            try:
                full = FlowCal.gate.ellipse(a0, [0, 2], center=(1.0, 3.0) if not log else (0.0, 0.5), a=1.5, b=1.0, theta=0.3, log=log, full_output=True)
                short = FlowCal.gate.ellipse(a0, [0, 2], center=(1.0, 3.0) if not log else (0.0, 0.5), a=1.5, b=1.0, theta=0.3, log=log)
                exp = [True] * n
                check_gate_output(res, 'ellipse:degenerate', 'ellipse(array with %d events, log=%s)' % (n, log), a0, full, short, exp, dict(kind='ellipse_refuse'), nontrivial=True)
            except Exception as e:
                res.violation('ellipse:degenerate-raises', 'ellipse on an array with %d events (log=%s) raised %s: %s' % (n, log, type(e).__name__, e), dict(kind='ellipse_refuse'))
    arr = np.arange(12.).reshape(4, 3)
    for chans in ([0], [0, 1, 2], []):
        one = dict(kind='ellipse_refuse')
        try:
            FlowCal.gate.ellipse(arr, chans, center=(1, 1), a=1, b=1)
        except Exception:
            res.ok('ellipse:refused')
            continue
        res.violation('ellipse:not-refused:%d' % len(chans), 'ellipse with %d channels did not raise' % len(chans), one)
    res.sample({'gate': 'ellipse', 'channels': [[0], [0, 1, 2], []]})


def run_case(c):
    res = Result()
    with warnings.catch_warnings():
        warnings.simplefilter('ignore')
        k = c['kind']
        if k == 'start_end':
            run_start_end(c, res)
        elif k == 'high_low':
            run_high_low(c, res)
        elif k == 'ellipse':
            run_ellipse(c, res)
        elif k == 'ellipse_types':
            run_ellipse_types(c, res)
        elif k == 'ellipse_shell':
            run_ellipse_shell(c, res)
        else:
            run_ellipse_refuse(res)
    return res
