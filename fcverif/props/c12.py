"""C12 -- summary statistics equal their definitions for any container and channel form (E1)."""
import itertools
import math
import os
import warnings
from fractions import Fraction

import numpy as np

from .. import fcsgen
from ..runner import Result, scratch

ID = 'C12'
LEVEL = 'exploration'
TECHNIQUE = ('exhaustive enumeration of all event matrices over a 3-letter value alphabet (N<=3 quick, '
             'N<=4 thorough, D<=2) x container (plain array of 5 dtypes, loaded 8/16/32-bit integer and '
             'float/double samples, sample after RFI conversion) x every channel-argument form x the ten '
             'statistics, each compared with a textbook reference in exact rational / math-module arithmetic')
RULE = ('one evaluation = one (matrix, container, channel form, statistic) call; all matrices of the '
        'stated shapes over the alphabet are generated once each; non-trivial = at least 2 events and a '
        'non-constant column; distinct by construction')
ASSUMPTIONS = ['population standard deviation (ddof=0) and linear-interpolation quartiles (NumPy default) are the textbook definitions meant by the documentation',
               'tolerance: relative 1e-9, or 1e-6 when the events are held in single precision',
               'values outside the 3-letter alphabets are not explored']
CHUNK = 1

STATS = ('mean', 'gmean', 'median', 'mode', 'std', 'cv', 'gstd', 'gcv', 'iqr', 'rcv')
ALPHABETS = {'pos': (1, 2, 3), 'zero': (0, 7, 255), 'frac': (0.5, 2.25, 1000.125), 'neg': (-3, 1, 2),
             'big64': (2 ** 53, 2 ** 53 + 1, 2 ** 53 + 3)}          # neighbouring 64-bit integers that double precision cannot tell apart


def ref_column(col):
    """textbook statistics of one column (tuple of ints/floats); None where undefined."""
    n = len(col)
    fr = [Fraction(x) for x in col]
    mean = sum(fr) / n
    var = sum((x - mean) ** 2 for x in fr) / n
    std = math.sqrt(var)
    s = sorted(fr)
    med = s[n // 2] if n % 2 else (s[n // 2 - 1] + s[n // 2]) / 2

    def q(p):
        pos = Fraction(p) * (n - 1)
        lo = int(pos)
        hi = min(lo + 1, n - 1)
        return s[lo] + (s[hi] - s[lo]) * (pos - lo)
    iqr = q(Fraction(3, 4)) - q(Fraction(1, 4))
    cnt = {}
    for x in col:
        cnt[x] = cnt.get(x, 0) + 1
    top = max(cnt.values())
    modes = sorted(x for x, c in cnt.items() if c == top)
    out = {'mean': float(mean), 'median': float(med), 'std': std, 'iqr': float(iqr), 'mode': modes,
           'cv': (std / float(mean)) if mean != 0 else None,
           'rcv': (float(iqr) / float(med)) if med != 0 else None}
    if all(x > 0 for x in col):
        logs = [math.log(x) for x in col]
        lm = math.fsum(logs) / n
        lsd = math.sqrt(math.fsum((l - lm) ** 2 for l in logs) / n)
        out['gmean'] = math.exp(lm)
        out['gstd'] = math.exp(lsd)
        out['gcv'] = math.sqrt(math.expm1(lsd ** 2))
    else:
        out['gmean'] = out['gstd'] = out['gcv'] = None
    return out


_REF = {}


def ref(col):
    col = tuple(col)
    if col not in _REF:
        _REF[col] = ref_column(col)
    return _REF[col]


def close(a, b, tol):
    if b is None:
        return True
    a = float(a)
    if math.isnan(a):
        return False
    return abs(a - b) <= tol * max(abs(b), abs(a)) + 1e-300 or abs(a - b) <= 1e-13


CONTAINERS_Q = ('arr:u1', 'arr:u2', 'arr:i8', 'arr:f4', 'arr:f8', 'fcs:8', 'fcs:16', 'fcs:F', 'fcs:D', 'rfi:lin', 'sub:slice', 'sub:list', 'sub:revslice',
                'sub:fullrev', 'sub:fullperm')
CONTAINERS_T = CONTAINERS_Q + ('fcs:32', 'fcs:64', 'rfi:log', 'fcs:24')


def channel_forms(D, named):
    if D == 1:
        forms = [None, 0, [0], -1]
        if named:
            forms += ['CH1', ['CH1']]
    else:
        forms = [None, 0, 1, -1, [0], [1], [0, 1], [1, 0], [1, 1]]
        if named:
            forms += ['CH1', 'CH2', ['CH2'], ['CH1', 'CH2'], ['CH2', 'CH1'], [0, 'CH2'], ['CH2', 0]]
    return forms


def cases(tier, seed):
    maxn = 3 if tier == 'quick' else 4
    conts = CONTAINERS_Q if tier == 'quick' else CONTAINERS_T
    for alpha in ('pos', 'zero', 'frac', 'neg', 'big64'):
        for D in (1, 2):
            for N in range(1, maxn + 1):
                if alpha != 'pos' and N == 4 and D == 2:
                    continue
                if alpha == 'big64':
                    for start in range(0, 3 ** (N * D), 81):
                        yield dict(alpha=alpha, N=N, D=D, start=start, stop=min(3 ** (N * D), start + 81), containers=['arr:i8', 'arr:u8', 'fcs:64'])
                    continue
                ncell = N * D
                total = 3 ** ncell
                # split big spaces in blocks of 243 matrices (a prefix of the odometer)
                block = 27
                for start in range(0, total, block):
                    yield dict(alpha=alpha, N=N, D=D, start=start, stop=min(total, start + block),
                               containers=list(conts))


    for kind in ('arr:u2', 'arr:f8', 'fcs:16', 'fcs:F', 'rfi:lin', 'sub:slice'):
        for k in (1, 2, 3, 4, 5):
            yield dict(kind='wide', container=kind, k=k, tier=tier)
    # many events in narrow types (a hand-written selection or accumulation shows only beyond a handful of events): even and odd counts
    for kind in ('arr:u1', 'fcs:8', 'arr:u2', 'arr:f4', 'fcs:16'):
        for n in (10, 11, 64, 500, 501):
            yield dict(kind='many', container=kind, n=n)
    # floating-point containers with events that have no value (NaN) in some channel
    for kind in ('arr:f4', 'arr:f8', 'fcs:F', 'fcs:D'):
        for nanat in ([[1, 1]], [[0, 0], [4, 0]], [[2, 2], [3, 1]], [[0, 0], [1, 1], [2, 2]]):
            yield dict(kind='nan', container=kind, nanat=nanat)
    # channel names that read like something else: strings of digits (a detector called '1' is not position 1), names with blanks,
    # commas and slashes (filter names), a name that is the text of a negative position
    for naming in ('digits', 'filters'):
        for kind in ('fcs:16', 'fcs:F'):
            for k in (1, 2, 3):
                yield dict(kind='wide', container=kind, k=k, tier=tier, naming=naming)


WIDE = [[3, 40, 500, 6, 70], [5, 10, 300, 2, 90], [4, 30, 100, 9, 20], [8, 20, 700, 1, 50]]      # 4 events x 5 channels, every column different


class OneShot(object):
    """a channel selection that can be iterated only once; made anew for every call"""
    def __init__(self, label, make):
        self.label, self.make = label, make

    def __repr__(self):
        return '<%s>' % self.label


def run_wide(c):
    """every ordered channel list of length k out of 5 channels (positions, names, mixed): the answers are the per-channel
    answers in the requested order"""
    import FlowCal
    res = Result()
    kind, k = c['container'], c['k']
    NAMINGS = {'ch': ['CH%d' % (j + 1) for j in range(5)], 'digits': ['1', '2', '3', '4', '0'],
               'filters': ['B530/30-A', 'Comp-PE, A', 'FL 3', '-1', 'FL 3 ']}
    nm = NAMINGS[c.get('naming', 'ch')]
    obj, sp, vals = make_container(kind, WIDE, 'pos', names=nm if c.get('naming') else None)
    named = not kind.startswith('arr')
    D = 5
    cols = [tuple(r[j] for r in vals) for j in range(D)]
    tol = 1e-6 if sp else 1e-9
    lists = list(itertools.permutations(range(D), k))
    if k >= 4 and c.get('tier') == 'quick':
        lists = lists[::6]
    if k == 3:
        lists += [(0, 0, 1), (4, 2, 4), (1, 1, 1)]
    for sel in lists:
        forms = [list(sel), [j - D for j in sel], tuple(sel)]
        if named:
            forms += [[nm[j] for j in sel], [nm[j] if (i + j) % 2 else j for i, j in enumerate(sel)],
                      tuple(nm[j] if (i + j) % 2 == 0 else j for i, j in enumerate(sel))]
            if len(sel) == 1:
                forms += [nm[sel[0]], sel[0]]            # a single channel asked for as a scalar
            forms += [np.array([nm[j] for j in sel])]            # a NumPy array of names (np.array(d.channels)[...])
            # one-shot iterables (what filter(), map(), reversed() and generator expressions give): the sample's channel lookup accepts them
            forms += [OneShot('generator of names', lambda sel=sel: (nm[j] for j in sel)), OneShot('iter of positions', lambda sel=sel: iter(list(sel))),
                      OneShot('map to names', lambda sel=sel: map(lambda j: nm[j], sel))]
        for form in forms:
            for st in STATS:
                if 'only' in c and c['only'] != [list(sel), repr(form), st]:
                    continue
                one = dict(c, only=[list(sel), repr(form), st])
                exp = [ref(cols[j])[st] for j in sel]
                fr = repr(form)
                try:
                    with warnings.catch_warnings():
                        warnings.simplefilter('ignore')
                        v = np.asarray(getattr(FlowCal.stats, st)(obj, form.make() if isinstance(form, OneShot) else form))
                except Exception as e:
                    res.violation('wide:%s:%s:raises:%s' % (st, kind, type(e).__name__), 'stats.%s(%s with 5 channels, channels=%s) raised %s: %s' % (st, kind, fr, type(e).__name__, e), one)
                    continue
                if repr(form) != fr and not isinstance(form, OneShot):
                    res.violation('wide:%s:%s:channel-argument-changed' % (st, kind), 'stats.%s(%s, channels=%s) changed the caller\'s channel list to %r' % (st, kind, fr, form), one)
                    continue
                if not isinstance(form, (list, tuple, OneShot, np.ndarray)):
                    if v.shape != ():
                        res.violation('wide:%s:%s:shape' % (st, kind), 'stats.%s(%s with 5 channels, channels=%s) returned shape %s for a single channel' % (st, kind, fr, v.shape), one)
                        continue
                    v = v.reshape(1)
                if v.shape != (len(sel),):
                    res.violation('wide:%s:%s:shape' % (st, kind), 'stats.%s(%s with 5 channels, channels=%s) returned shape %s' % (st, kind, fr, v.shape), one)
                    continue
                bad = None
                for i, (gv, e) in enumerate(zip(v.tolist(), exp)):
                    if e is None:
                        continue
                    if (st == 'mode' and not any(float(gv) == float(m) for m in e)) or (st != 'mode' and not close(gv, e, tol)):
                        bad = (i, gv, e)
                        break
                if bad:
                    res.violation('wide:%s:%s:value' % (st, kind), 'stats.%s(%s with 5 channels, channels=%s): entry %d is %r, the definition on channel %d gives %r' % (
                        st, kind, fr, bad[0], bad[1], sel[bad[0]], bad[2]), one)
                    continue
                res.ok('wide:%s' % st, True)
    if k == 1 and kind in ('rfi:lin', 'fcs:F', 'arr:f8'):
        # the statistics describe the events as they are NOW: asked without a channel argument, the events edited in place, asked again
        for st in STATS:
            one = dict(c)
            try:
                with warnings.catch_warnings():
                    warnings.simplefilter('ignore')
                    getattr(FlowCal.stats, st)(obj)
            except Exception:
                continue
        obj[:, 2] = np.asarray(obj[:, 2]) * 3.0 + 1.0
        obj[0, 4] = 1234.0
        now = np.asarray(obj)
        cols2 = [tuple(float(x) for x in now[:, j]) for j in range(D)]
        for st in STATS:
            with warnings.catch_warnings():
                warnings.simplefilter('ignore')
                v = np.asarray(getattr(FlowCal.stats, st)(obj))
            exp = [ref(cols2[j])[st] for j in range(D)]
            for j, (gv, e) in enumerate(zip(v.tolist(), exp)):
                if e is None:
                    continue
                if (st == 'mode' and not any(float(gv) == float(m_) for m_ in e)) or (st != 'mode' and not close(gv, e, tol)):
                    res.violation('wide:%s:%s:after-edit' % (st, kind), 'stats.%s(%s) after the events were edited in place: entry %d is %r, the definition on the current events gives %r' % (
                        st, kind, j, gv, e), dict(c))
                    break
            else:
                res.ok('wide:after-edit', True)
    res.sample({'container': kind, 'channels': 5, 'list_length': k, 'lists': len(lists), 'spellings': 'positions, negative positions, names, mixed; lists and tuples'})
    return res


def bounds(tier, seed):
    return {'max_events': 3 if tier == 'quick' else 4, 'max_channels': 2, 'alphabets': ALPHABETS,
            'wide': 'all ordered channel lists of length 1..3 (quick; 1..5 thorough, every 6th of length 4, 5 in quick) out of 5 channels x 4 spellings x 6 containers'}


def matrix(alpha, N, D, idx):
    a = ALPHABETS[alpha]
    cells = []
    for _ in range(N * D):
        cells.append(a[idx % 3])
        idx //= 3
    return [cells[i * D:(i + 1) * D] for i in range(N)]


def make_container(kind, M, alpha, names=None):
    """-> (object, held_single_precision, values as python numbers) or None if not applicable."""
    import FlowCal
    N, D = len(M), len(M[0])
    isfrac = alpha == 'frac'
    k, sub = kind.split(':')
    if alpha == 'big64' and kind not in ('arr:i8', 'arr:u8', 'fcs:64'):
        return None
    if alpha == 'neg':
        # negative values (compensated data): signed / floating-point containers only
        if not ((k == 'arr' and sub in ('i8', 'f4', 'f8')) or (k == 'fcs' and sub in ('F', 'D'))):
            return None
    if k == 'arr':
        dt = np.dtype(sub)
        if isfrac and dt.kind != 'f':
            return None
        a = np.array(M, dtype=dt)
        return a, dt == np.float32, M
    if k == 'fcs':
        if sub in ('F', 'D'):
            bits = [32 if sub == 'F' else 64] * D
            ev = [[fcsgen.float_bits(float(x), sub) for x in row] for row in M]
            lay = dict(datatype=sub, bits=bits, ranges=[1024] * D, events=ev, byteord='1,2,3,4')
        else:
            if isfrac:
                return None
            w = int(sub)
            lay = dict(datatype='I', bits=[w] * D, ranges=[2 ** min(w, 10)] * D if False else [2 ** w] * D,
                       events=M, byteord='4,3,2,1')
        if D == 5:
            # channel labels ($PnS) that read like the NAMES of other channels: statistics are asked for by name, never by label
            lay['extra'] = [('$P1S', 'CH4'), ('$P2S', 'CH5'), ('$P3S', 'other'), ('$P4S', 'CH1')]
        if names:
            lay['names'] = list(names)
            lay['extra'] = [('$P1S', names[3]), ('$P2S', names[4]), ('$P3S', 'other'), ('$P4S', names[0])]
        path = os.path.join(scratch(), 'c12.fcs')
        buf, _ = fcsgen.build(lay)
        with open(path, 'wb') as f:
            f.write(buf)
        d = FlowCal.io.FCSData(path)
        return d, sub == 'F', M
    if k == 'sub' and sub in ('fullrev', 'fullperm'):
        # a sub-sample that keeps EVERY channel of its parent, in another order (reversed slice / name list)
        if isfrac or D < 2:
            return None
        lay = dict(datatype='I', bits=[16] * D, ranges=[1024] * D, events=[list(reversed(row)) for row in M], byteord='4,3,2,1',
                   names=['CH%d' % (D - j) for j in range(D)])
        path = os.path.join(scratch(), 'c12f.fcs')
        buf, _ = fcsgen.build(lay)
        with open(path, 'wb') as f:
            f.write(buf)
        parent = FlowCal.io.FCSData(path)
        d = parent[:, ::-1] if sub == 'fullrev' else parent[:, ['CH%d' % (j + 1) for j in range(D)]]
        return d, False, M
    if k == 'sub':
        # a sub-sample of a wider parent that has already been queried by name (history: parent by name -> slice -> child by name)
        if isfrac:
            return None
        if sub == 'revslice':
            names = ['CH%d' % (D - j) for j in range(D)] + ['X0']        # parent columns reversed; child = parent[:, -2::-1]
            ev = [list(reversed(row)) + [9] for row in M]
        else:
            names = ['X0'] + ['CH%d' % (j + 1) for j in range(D)]
            ev = [[9] + list(row) for row in M]
        lay = dict(datatype='I', bits=[16] * (D + 1), ranges=[1024] * (D + 1), events=ev, byteord='4,3,2,1', names=names)
        path = os.path.join(scratch(), 'c12s.fcs')
        buf, _ = fcsgen.build(lay)
        with open(path, 'wb') as f:
            f.write(buf)
        parent = FlowCal.io.FCSData(path)
        FlowCal.stats.mean(parent, 'CH%d' % D)
        parent.range('X0')
        parent[:, 'CH1']
        if sub == 'slice':
            d = parent[:, 1:]
        elif sub == 'list':
            d = parent[:, ['CH%d' % (j + 1) for j in range(D)]]
        else:
            d = parent[:, -2::-1]
        return d, False, M
    if k == 'rfi':
        if isfrac:
            return None
        pne = '0,0' if sub == 'lin' else '2,1'
        lay = dict(datatype='I', bits=[16] * D, ranges=[1024] * D, events=M, byteord='4,3,2,1',
                   pne=[pne] * D)
        path = os.path.join(scratch(), 'c12.fcs')
        buf, _ = fcsgen.build(lay)
        with open(path, 'wb') as f:
            f.write(buf)
        d = FlowCal.transform.to_rfi(FlowCal.io.FCSData(path))
        vals = [[float(x) for x in row] for row in np.asarray(d).tolist()]
        return d, False, vals
    raise ValueError(kind)


def run_many(c):
    """n events of three channels in a narrow container, from a fixed multiplicative generator (several streams): all statistics by definition"""
    import FlowCal
    res = Result()
    kind, n = c['container'], c['n']
    top = 256 if kind in ('arr:u1', 'fcs:8') else 1000
    for stream in range(6):
        x = 12345 + 7919 * stream + n
        M = []
        for i in range(n):
            row = []
            for j in range(3):
                x = (x * 1103515245 + 12345) % (2 ** 31)
                row.append(1 + (x >> 8) % (top - 1))
            M.append(row)
        mc = make_container(kind, M, 'pos')
        if mc is None:
            continue
        obj, sp, vals = mc
        tol = 2e-5 if sp else 1e-9           # (sums over hundreds of single-precision events: rounding accumulates beyond 1e-6)
        cols = [tuple(r[j] for r in M) for j in range(3)]
        for form, sel in ((None, [0, 1, 2]), ([2, 0], [2, 0]), (1, [1])):
            for st in STATS:
                one = dict(c)
                exp = [ref(cols[j])[st] for j in sel]
                try:
                    with warnings.catch_warnings():
                        warnings.simplefilter('ignore')
                        v = np.asarray(getattr(FlowCal.stats, st)(obj, form), dtype=float).reshape(-1)
                except Exception as e:
                    res.violation('many:%s:raises:%s' % (st, type(e).__name__), 'stats.%s(%s with %d events, channels=%r) raised %s: %s' % (st, kind, n, form, type(e).__name__, e), one)
                    continue
                bad = None
                for i, (gv, e) in enumerate(zip(v.tolist(), exp)):
                    if e is None:
                        continue
                    if (st == 'mode' and not any(float(gv) == float(m_) for m_ in e)) or (st != 'mode' and not close(gv, e, tol)):
                        bad = (i, gv, e)
                        break
                if bad:
                    res.violation('many:%s:value' % st, 'stats.%s(%s with %d events (stream %d), channels=%r): entry %d is %r, the definition gives %r' % (st, kind, n, stream, form, bad[0], bad[1], bad[2]), one)
                else:
                    res.ok('many:%s' % st, True)
    res.sample({'container': kind, 'events': n, 'streams': 6})
    return res


def run_nan(c):
    """floating-point containers in which some events have no value (NaN) in some channel: the arithmetic statistics of such a channel are
    NaN by their definitions (a sum with a NaN term), consistently across mean, SD and CV; channels without NaN follow their definitions"""
    import FlowCal
    res = Result()
    kind = c['container']
    nanat = c['nanat']                      # list of (event, channel) cells that hold NaN
    base = [[3.0, 40.0, 500.0], [5.0, 10.0, 300.0], [4.0, 30.0, 100.0], [8.0, 20.0, 700.0], [6.0, 25.0, 250.0]]
    M = [list(r) for r in base]
    for (i, j) in nanat:
        M[i][j] = float('nan')
    obj, sp, vals = make_container(kind, M, 'frac')
    named = not kind.startswith('arr')
    tol = 1e-6 if sp else 1e-9
    nancols = sorted(set(j for _, j in nanat))
    forms = [None, [0, 1, 2], [2, 0], 0, 1, 2, -1, (1, 2)] + ([['CH3', 'CH1'], 'CH2', ['CH1', 1, 'CH3']] if named else [])
    for form in forms:
        sel = [0, 1, 2] if form is None else [(f if isinstance(f, int) else int(f[2:]) - 1) % 3 for f in (form if isinstance(form, (list, tuple)) else [form])]
        got = {}
        one = dict(c)
        try:
            with warnings.catch_warnings():
                warnings.simplefilter('ignore')
                for st in ('mean', 'std', 'cv', 'median', 'iqr'):
                    got[st] = np.asarray(getattr(FlowCal.stats, st)(obj, form), dtype=float).reshape(-1)
        except Exception as e:
            res.violation('nan:raises:%s' % type(e).__name__, 'stats on %s with NaN events, channels=%r raised %s: %s' % (kind, form, type(e).__name__, e), one)
            continue
        bad = None
        for k_, j in enumerate(sel):
            if j in nancols:
                for st in ('mean', 'std', 'cv'):
                    if not math.isnan(float(got[st][k_])):
                        bad = 'stats.%s(%s, channels=%r): entry %d (channel %d, which holds NaN events) is %r, the definition (a sum over all events) gives NaN' % (st, kind, form, k_, j, float(got[st][k_]))
            else:
                r_ = ref(tuple(row[j] for row in base))
                for st in ('mean', 'std', 'cv', 'median', 'iqr'):
                    if not close(got[st][k_], r_[st], tol):
                        bad = 'stats.%s(%s, channels=%r): entry %d (channel %d, without NaN) is %r, the definition gives %r' % (st, kind, form, k_, j, float(got[st][k_]), r_[st])
            if bad:
                break
        if bad:
            res.violation('nan:value', bad, one)
        else:
            res.ok('nan', True)
    res.sample({'container': kind, 'NaN cells': nanat})
    return res


def run_case(c):
    import FlowCal
    if c.get('kind') == 'wide':
        return run_wide(c)
    if c.get('kind') == 'nan':
        return run_nan(c)
    if c.get('kind') == 'many':
        return run_many(c)
    res = Result()
    N, D, alpha = c['N'], c['D'], c['alpha']
    single = 'single' in c
    for idx in ([c['single']['idx']] if single else range(c['start'], c['stop'])):
        M = matrix(alpha, N, D, idx)
        nontriv = N >= 2 and any(len(set(r[j] for r in M)) > 1 for j in range(D))
        results = {}          # (form repr, stat) -> {container: value list}
        for kind in ([c['single']['container']] if single else c['containers']):
            mc = make_container(kind, M, alpha)
            if mc is None:
                continue
            obj, sp, vals = mc
            tol = 1e-6 if sp else 1e-9
            named = not kind.startswith('arr')
            cols = [tuple(r[j] for r in vals) for j in range(D)]
            forms = channel_forms(D, named)
            if not (N <= 2 and alpha == 'pos') and not single:
                # complete form list on the small matrices; on the others one form of each kind
                forms = [f for f in forms if f in (None, 0, [1, 0], 'CH2', 'CH1', [0])]
            for form in forms:
                if form is None:
                    sel = list(range(D))
                    scalar = False
                elif isinstance(form, list):
                    sel = [f if isinstance(f, int) else int(f[2:]) - 1 for f in form]
                    scalar = False
                else:
                    sel = [form if isinstance(form, int) else int(form[2:]) - 1]
                    scalar = True
                got = {}
                for st in STATS:
                    if single and st != c['single']['stat'] and c['single']['stat'] not in ('identity',):
                        continue
                    if alpha == 'big64' and st != 'mode':
                        continue          # beyond 2**53 only the mode is an exact (counting) statistic; the others are double-precision arithmetic
                    exp = [ref(cols[j])[st] for j in sel]
                    one = dict(alpha=alpha, N=N, D=D, single=dict(idx=idx, container=kind, stat=st))
                    if all(e is None for e in exp):
                        continue
                    try:
                        form_repr = repr(form)
                        with warnings.catch_warnings():
                            warnings.simplefilter('ignore')
                            if form is None:
                                v = getattr(FlowCal.stats, st)(obj)
                            else:
                                v = getattr(FlowCal.stats, st)(obj, form)
                        if repr(form) != form_repr:
                            res.violation('%s:%s:channel-argument-changed' % (st, kind), 'stats.%s(%s, channels=%s) changed the caller\'s channel list to %r' % (
                                st, kind, form_repr, form), one)
                            form = eval(form_repr)
                            continue
                    except Exception as e:
                        res.violation('%s:%s:%s:raises:%s' % (st, kind, _fk(form), type(e).__name__),
                                      'stats.%s(%s, channels=%r) raised %s: %s for events %s' % (
                                          st, kind, form, type(e).__name__, e, M), one)
                        continue
                    va = np.asarray(v)
                    if scalar:
                        okshape = va.ndim == 0
                        flat = [va[()]] if okshape else []
                    else:
                        okshape = va.shape == (len(sel),)
                        flat = list(va) if okshape else []
                    if not okshape:
                        res.violation('%s:%s:%s:shape' % (st, kind, _fk(form)),
                                      'stats.%s(%s, channels=%r) returned shape %s for %d requested channel(s); events %s' % (
                                          st, kind, form, va.shape, len(sel), M), one)
                        continue
                    bad = None
                    for gv, e in zip(flat, exp):
                        if st == 'mode':
                            exact = isinstance(gv, (int, np.integer)) and all(isinstance(m, int) for m in e)
                            if not any((int(gv) == m) if exact else (float(gv) == float(m)) for m in e):
                                bad = (gv, e)
                        elif not close(gv, e, tol):
                            bad = (gv, e)
                    if bad is not None:
                        res.violation('%s:%s:value' % (st, kind),
                                      'stats.%s(%s, channels=%r) = %r, definition gives %r (tolerance %g); events %s' % (
                                          st, kind, form, bad[0], bad[1], tol, M), one)
                        continue
                    got[st] = [float(x) for x in flat]
                    results.setdefault((_fk(form), st), {})[kind] = got[st]
                    res.ok(st + ':' + ('scalar' if scalar else 'list' if form is not None else 'all'), nontriv)
                # identities on the implementation's own answers
                for a, b, cc, f in (('cv', 'std', 'mean', lambda s, m: s / m if m else None),
                                    ('rcv', 'iqr', 'median', lambda s, m: s / m if m else None)):
                    if a in got and b in got and cc in got:
                        for x, s_, m_ in zip(got[a], got[b], got[cc]):
                            e = f(s_, m_)
                            if e is not None and not close(x, e, 1e-6 if sp else 1e-12):
                                res.violation('identity:%s:%s' % (a, kind), '%s=%r but %s/%s=%r; events %s' % (
                                    a, x, b, cc, e, M), dict(alpha=alpha, N=N, D=D, single=dict(idx=idx, container=kind, stat='identity')))
                if 'gcv' in got and 'gstd' in got:
                    for x, g in zip(got['gcv'], got['gstd']):
                        e = math.sqrt(math.expm1(math.log(g) ** 2)) if g > 0 else None
                        if e is not None and not (close(x, e, 1e-6 if sp else 1e-7) or abs(x - e) < 1e-7):
                            res.violation('identity:gcv:%s' % kind, 'gcv=%r but sqrt(exp(ln(gstd)^2)-1)=%r; events %s' % (
                                x, e, M), dict(alpha=alpha, N=N, D=D, single=dict(idx=idx, container=kind, stat='identity')))
        # the same request answered by different containers
        for (fk, st), per in results.items():
            if st == 'mode':
                continue
            items = sorted(per.items())
            # same dtype, plain array vs loaded sample: identical
            for ka, kb in (('arr:u1', 'fcs:8'), ('arr:u2', 'fcs:16'), ('arr:f4', 'fcs:F'), ('arr:f8', 'fcs:D')):
                if ka in per and kb in per and per[ka] != per[kb]:
                    if not all((x == y) or (x != x and y != y) for x, y in zip(per[ka], per[kb])):
                        res.violation('container:%s:%s-vs-%s' % (st, ka, kb),
                                      'stats.%s(channels=%s): plain %s gives %r, loaded %s gives %r; events %s' % (
                                          st, fk, ka, per[ka], kb, per[kb], M),
                                      dict(alpha=alpha, N=N, D=D, start=idx, stop=idx + 1, containers=[ka, kb]))
            res.counters['cross_container_groups'] += 1
        if idx == c.get('start', -1):
            res.sample({'events': M, 'containers': c.get('containers'), 'forms': [repr(f) for f in channel_forms(D, True)]})
    return res


def _fk(form):
    return repr(form).replace(' ', '')
