"""C20 -- a sample survives copying, viewing and pickling in any analysis state (E2)."""
import copy
import itertools
import os
import pickle
import warnings

import numpy as np

from .. import fcsgen, bfs
from ..fingerprint import fp, diff, broken
from ..runner import Result, scratch

ID = 'C20'
LEVEL = 'model_checking'
ENGINE = 'E2'
TECHNIQUE = ('explicit-state breadth-first search over analysis histories (channel/event slicing, RFI, MEF, gates) from three base '
             'samples, states de-duplicated by fingerprint; in EVERY reachable state every clone operation (copy, copy.copy, '
             'deepcopy, view, pickle protocols 0..5) is applied and the clone compared with and then mutated against the original; '
             'FCSFile equality/hash over every single-cell and single-keyword edit of a small file')
RULE = ('a transition = one analysis operation or one clone operation applied to one reachable state; a state = the full '
        'fingerprint (values, dtype kind and width, every metadata attribute); non-trivial = every clone transition (equality and '
        'independence both checked); histories whose operation raises are not states')
ASSUMPTIONS = ['byte order is not part of equality (NumPy 2 pickling normalises >u2 to native); numeric kind and width are',
               'operation menu: 10 analysis operations; depth 2 (quick) / 3 (thorough)']
CHUNK = 1

NAMES = ['FSC', 'SSC', 'FL1', 'FL2']


def base_path(kind):
    ev = [[(13 * i + 7 * j) % 900 + 20 for j in range(4)] for i in range(24)]
    ev[0] = [0, 1023, 0, 1023]
    ev[5] = [1023, 0, 512, 1]
    if kind == 'int-full':
        extra = [('$TIMESTEP', '0.01'), ('$BTIM', '10:05:07'), ('$ETIM', '10:06:10.25'), ('$DATE', '03-OCT-2023')]
        for j in range(4):
            # the first detector voltage is exactly 0 (a scatter channel without PMT): zero is a value, not "absent"
            extra += [('$P%dV' % (j + 1), str(300 + j) if j else '0'), ('$P%dG' % (j + 1), str(1.0 + j)), ('$P%dS' % (j + 1), 'lab %d' % j)]
        lay = dict(datatype='I', bits=[16] * 4, ranges=[1024] * 4, names=NAMES, pne=['0,0', '0,0', '4,1', '3,0'], events=ev,
                   byteord='4,3,2,1', extra=extra, analysis=[('GATE', 'g1')])
    elif kind == 'float':
        lay = dict(datatype='F', bits=[32] * 4, ranges=[262144] * 4, names=NAMES, pne=['0,0'] * 4, byteord='1,2,3,4',
                   events=[[fcsgen.float_bits(x * 1.5 - 3.0, 'F') for x in r] for r in ev], extra=[('$P1G', '2.0')])
    else:
        lay = dict(datatype='I', bits=[8, 24, 16, 16], ranges=[256, 4096, 1024, 1000], names=NAMES, pne=['0,0', '0,0', '2,1', '0,0'],
                   events=[[a % 256, b, c, d % 1000] for a, b, c, d in ev], byteord='1,2,3,4', version='FCS2.0')
    p = os.path.join(scratch(), 'c20_%s.fcs' % kind)
    if not os.path.exists(p):
        buf, _ = fcsgen.build(lay)
        with open(p, 'wb') as f:
            f.write(buf)
    return p


BASES = ['int-full', 'float', 'minimal', 'handle']         # 'handle': the int-full file loaded from an open file object


def ops():
    import FlowCal
    sc = [lambda x: np.sign(x) * np.exp(1.5) * np.abs(x) ** 1.1, lambda x: np.sign(x) * np.exp(2.5) * np.abs(x) ** 0.9]

    def chan(d, names):
        return [n for n in names if n in d.channels]
    O = {
        'cols:FL': lambda d: d[:, chan(d, ['FL2', 'FL1'])] if len(chan(d, ['FL2', 'FL1'])) == 2 else None,
        'cols:rev': lambda d: d[:, list(d.channels)[::-1]] if d.shape[1] > 1 else None,
        'cols:one': lambda d: d[:, [d.channels[-1]]],
        # the same channel selected twice, then only one of the two copies converted: per-column metadata of equally named columns differs
        'cols:dup': lambda d: d[:, [d.channels[0], d.channels[-1], d.channels[-1]]] if d.shape[1] > 1 and len(set(d.channels)) == len(d.channels) else None,
        'to_rfi:second': lambda d: FlowCal.transform.to_rfi(d, 1) if d.shape[1] > 1 else None,
        'rows:slice': lambda d: d[1:-1:2] if d.shape[0] > 3 else None,
        'rows:mask': lambda d: d[np.arange(d.shape[0]) % 3 != 1] if d.shape[0] > 2 else None,
        'rows:none': lambda d: d[np.zeros(d.shape[0], dtype=bool)] if d.shape[0] > 0 else None,      # everything gated out
        'rows:one': lambda d: d[2:3] if d.shape[0] > 3 else None,
        'to_rfi': lambda d: FlowCal.transform.to_rfi(d),
        'to_mef': lambda d: FlowCal.transform.to_mef(d, chan(d, ['FL1', 'FL2']), sc[:len(chan(d, ['FL1', 'FL2']))], chan(d, ['FL1', 'FL2'])) if chan(d, ['FL1', 'FL2']) else None,
        # a decreasing standard curve is legal: the converted range is then a decreasing pair
        'to_mef:decreasing': lambda d: FlowCal.transform.to_mef(d, chan(d, ['FL1']), [lambda x: 2.5e6 / (np.abs(x) + 1.0)], chan(d, ['FL1'])) if chan(d, ['FL1']) else None,
        'high_low': lambda d: FlowCal.gate.high_low(d),
        'start_end': lambda d: FlowCal.gate.start_end(d, 2, 1) if d.shape[0] >= 3 else None,
        'density2d': lambda d: FlowCal.gate.density2d(d, list(d.channels[:2]), bins=[8, 8], gate_fraction=0.6, sigma=1.0) if d.shape[1] >= 2 and d.shape[0] >= 2 else None,
    }
    return O


CLONES = ['copy', 'copy.copy', 'deepcopy', 'view'] + ['pickle%d' % p for p in range(6)] + ['reload']
# 'reload': the "copy" is a second load of the same file taken through the same history -- two loads are equal and independent


def clone(d, how, base=None, hist=None):
    if how == 'reload':
        if base == 'handle' and hasattr(d.infile, 'read'):
            # the second load goes through the SAME open file object the first one was read from (it is still the caller's, and open)
            import FlowCal
            d2 = FlowCal.io.FCSData(d.infile)
            O = ops()
            for h in hist:
                with warnings.catch_warnings():
                    warnings.simplefilter('ignore')
                    d2 = O[h](d2)
            return d2
        return build(base, hist)
    if how == 'copy':
        return d.copy()
    if how == 'copy.copy':
        return copy.copy(d)
    if how == 'deepcopy':
        return copy.deepcopy(d)
    if how == 'view':
        return d.view()
    return pickle.loads(pickle.dumps(d, protocol=int(how[6:])))


def mutate(x):
    if x.size:
        idx = (0,) * x.ndim
        x[idx] = x[idx] + 1
    if len(x.range()):
        x.range(0)[0] = -777.0
        x.range(0)[1] = 777.5
    _MUT[0] += 1            # another annotation every time: a remembered earlier one would show
    x.text['NEWKEY%d' % _MUT[0]] = 'v'
    x.text['$TOT'] = 'changed%d' % _MUT[0]
    x.analysis['NEWKEY%d' % _MUT[0]] = 'v'


_MUT = [0]


def meta_only(f):
    return f[2]


_HANDLES = []


def build(base, hist):
    import FlowCal
    if base == 'handle':
        fh = open(base_path('int-full'), 'rb')
        _HANDLES.append(fh)
        if len(_HANDLES) > 200:
            for h_ in _HANDLES[:100]:
                h_.close()
            del _HANDLES[:100]
        d = FlowCal.io.FCSData(fh)
    else:
        # the 'minimal' base is loaded through a legal but not normalised spelling of its path (the path is part of the sample)
        pth = base_path(base)
        if base == 'minimal':
            pth = os.path.join(os.path.dirname(pth), '.', '', os.path.basename(pth)).replace(os.sep + os.path.basename(pth), os.sep + '.' + os.sep + os.path.basename(pth))
        d = FlowCal.io.FCSData(pth)
    O = ops()
    for h in hist:
        with warnings.catch_warnings():
            warnings.simplefilter('ignore')
            d = O[h](d)
        if d is None:
            return None
    return d


def check_clones(res, base, hist, one_base):
    """every clone operation in the state reached by hist; each transition rebuilds the state from its history"""
    import FlowCal
    n = 0
    for how in CLONES:
        if base == 'handle' and how.startswith('pickle'):
            continue            # an open file object cannot be pickled (nor could it before); copies and views must work
        one = dict(kind='clone-one', base=base, hist=list(hist), how=how)
        d = build(base, hist)
        f0 = fp(d)
        what = '%s of the %s sample after %s' % (how, base, ' ; '.join(hist) or 'loading')
        try:
            with warnings.catch_warnings():
                warnings.simplefilter('ignore')
                c = clone(d, how, base, hist)
        except Exception as e:
            res.violation('clone-raises:%s:%s' % (how, type(e).__name__), '%s raised %s: %s' % (what, type(e).__name__, e), one)
            continue
        n += 1
        if not isinstance(c, FlowCal.io.FCSData):
            res.violation('clone-type:%s' % how, '%s is a %s' % (what, type(c).__name__), one)
            continue
        fc = fp(c)
        if fc != f0:
            res.violation('clone-differs:%s' % how, '%s differs from the original: %s' % (what, diff(fc, f0)), one)
            continue
        if fp(d) != f0:
            res.violation('clone-changed-original:%s' % how, '%s changed the original' % what, one)
            continue
        # independence: mutate the clone, the original must not change (a view may share the event buffer)
        mutate(c)
        f1 = fp(d)
        a, b = (meta_only(f0), meta_only(f1)) if how == 'view' else (f0, f1)
        if a != b:
            res.violation('clone-aliases:%s' % how, 'changing the %s changed the original: %s' % (what, diff(a, b)), one)
            continue
        # and the other way round on a fresh pair
        d2 = build(base, hist)
        c2 = clone(d2, how, base, hist)
        g0 = fp(c2)
        mutate(d2)
        g1 = fp(c2)
        a, b = (meta_only(g0), meta_only(g1)) if how == 'view' else (g0, g1)
        if a != b:
            res.violation('original-aliases-clone:%s' % how, 'changing the original changed its %s: %s' % (what, diff(a, b)), one)
            continue
        # the original is changed right after the clone was made, BEFORE anything of the clone has been looked at: the clone still is what
        # the original was (nothing is copied lazily at the first access)
        d5 = build(base, hist)
        e5 = fp(build(base, hist))
        c5 = clone(d5, how, base, hist)
        mutate(d5)
        g5 = fp(c5)
        a, b = (meta_only(e5), meta_only(g5)) if how == 'view' else (e5, g5)
        if a != b:
            res.violation('original-aliases-unread-clone:%s' % how, 'the original was changed before its %s was first looked at: the clone shows the change: %s' % (what, diff(b, a)), one)
            continue
        # the single-event record d[i] (one-dimensional, all channels) of this state survives copying and pickling too
        if how != 'reload':
            d6 = build(base, hist)
            if d6.shape[0] > 1:
                rec = d6[1]
                try:
                    c6 = clone(rec, how, base, hist)
                except Exception as e:
                    res.violation('record-clone-raises:%s:%s' % (how, type(e).__name__), '%s of the single-event record d[1] of the %s sample after %s raised %s: %s' % (
                        how, base, ' ; '.join(hist) or 'loading', type(e).__name__, e), one)
                    continue
                if fp(c6) != fp(rec):
                    res.violation('record-clone-differs:%s' % how, '%s of the single-event record d[1] of the %s sample after %s differs from the record: %s' % (
                        how, base, ' ; '.join(hist) or 'loading', diff(fp(c6), fp(rec))), one)
                    continue
        # a second clone taken after the first one was changed still equals the original (nothing of the first is remembered)
        d3 = build(base, hist)
        h0 = fp(d3)
        c3 = clone(d3, how, base, hist)
        mutate(c3)
        c4 = clone(d3, how, base, hist)
        h4 = fp(c4)
        a, b = (meta_only(h0), meta_only(h4)) if how == 'view' else (h0, h4)
        if a != b:
            res.violation('second-clone-differs:%s' % how, 'a second %s, taken after the first one was changed, differs from the original: %s' % (what, diff(b, a)), one)
            continue
        res.ok('clone:' + ('view' if how == 'view' else 'pickle' if how.startswith('pickle') else 'copy'), True)
    return n


def cases(tier, seed):
    depth = 2 if tier == 'quick' else 3
    for b in BASES:
        yield dict(kind='bfs', base=b, depth=depth)
    yield dict(kind='file-eq', part='cells')
    yield dict(kind='file-eq', part='keywords')


def bounds(tier, seed):
    return {'history_depth': 2 if tier == 'quick' else 3, 'operations': sorted(ops()), 'clones': CLONES, 'bases': BASES}


def run_case(c):
    import FlowCal
    res = Result()
    if c['kind'] == 'clone-one':
        saved = list(CLONES)
        try:
            CLONES[:] = [c['how']]
            check_clones(res, c['base'], c['hist'], c)
        finally:
            CLONES[:] = saved
        return res
    if c['kind'] == 'bfs':
        base = c['base']
        O = ops()
        names = sorted(O)
        clone_tr = [0]

        def build_(hist):
            return build(base, list(hist))

        def events(state, depth):
            return names

        def check(hist, ev, state):
            try:
                with warnings.catch_warnings():
                    warnings.simplefilter('ignore')
                    nxt = O[ev](state)
            except Exception:
                return None            # an operation that raises does not produce a state
            if nxt is None or not isinstance(nxt, FlowCal.io.FCSData) or nxt.ndim != 2:
                return None
            bk = broken(fp(nxt))
            if bk and not broken(fp(state)):
                res.violation('state-broken:%s' % ev, 'after %s on the %s sample (history %s) the attributes %s can no longer be read' % (
                    ev, base, ' ; '.join(hist) or 'loading', ', '.join(bk)), dict(kind='bfs', base=base, depth=len(hist) + 1))
            return nxt

        # clones are checked in every distinct state: hook the canon function (called once per new candidate)
        seen_local = set()

        def canon(state):
            return fp(state)

        st = bfs.search(build_, events, check, canon, lambda s: s.shape[0] > 0 and s.shape[1] > 0, c['depth'])
        # enumerate the distinct states again (by history) and clone each; bfs gives digests only, so redo a light BFS for histories
        frontier, seen, hists = [()], {bfs.digest(fp(build_(())))}, [()]
        for depth in range(c['depth']):
            nxt = []
            for h in frontier:
                s = build_(h)
                for evn in names:
                    s2 = check(h, evn, build_(h))
                    if s2 is None:
                        continue
                    k = bfs.digest(fp(s2))
                    if k in seen:
                        continue
                    seen.add(k)
                    hists.append(h + (evn,))
                    if s2.shape[0] > 0 and s2.shape[1] > 0 and depth + 1 < c['depth']:
                        nxt.append(h + (evn,))
            frontier = nxt
        ntr = 0
        for h in hists:
            ntr += check_clones(res, base, list(h), c)
        res.hashes |= set(base + ':' + s for s in seen)
        res.counters['transitions'] += st['transitions'] + ntr
        res.counters['traces_validated_against_impl'] += ntr
        res.counters['max_depth'] = max(res.counters['max_depth'], st['depth'])
        res.sample({'base': base, 'distinct_states': len(seen), 'example_history': list(hists[-1]), 'clones_per_state': CLONES})
        return res
    # FCSFile equality and hashing
    lay = dict(datatype='I', bits=[16, 8], ranges=[1024, 256], events=[[1, 2], [300, 4], [5, 255]], byteord='4,3,2,1',
               extra=[('KEY1', 'v1'), ('KEY2', 'v2')], analysis=[('AK', 'av')])
    p = os.path.join(scratch(), 'c20eq.fcs')

    def write(l):
        buf = l if isinstance(l, bytes) else fcsgen.build(l)[0]
        with open(p, 'wb') as f:
            f.write(buf)
        # the path is spelled anew for every load (equal text, another string object), as two callers would
        return FlowCal.io.FCSFile(os.path.join(os.path.dirname(p), ''.join(list(os.path.basename(p)))))
    D_ = lay.get('delim', '/')
    a, b = write(lay), write(lay)
    if not (a == b) or (a != b) or hash(a) != hash(b):
        res.violation('file-eq:identical', 'two loads of the same file: == %s, != %s, equal hashes %s' % (a == b, a != b, hash(a) == hash(b)), dict(c))
    else:
        res.ok('file-eq:identical', True)
    ref = write(lay)
    edits = []
    if c['part'] == 'cells':
        for i in range(3):
            for j in range(2):
                for delta in (1, -1, 128):
                    l2 = dict(lay)
                    ev = [list(r) for r in lay['events']]
                    ev[i][j] = (ev[i][j] + delta) % (1024 if j == 0 else 256)
                    if ev == lay['events']:
                        continue
                    l2['events'] = ev
                    edits.append(('cell (%d,%d) %+d' % (i, j, delta), l2))
        l2 = dict(lay)
        l2['events'] = lay['events'] + [[9, 9]]
        edits.append(('one more event', l2))
        # smallest possible changes of large / floating-point values (equality must be exact, not approximate)
        import struct
        big = dict(lay, bits=[32, 64], ranges=[2 ** 32, 2 ** 64], events=[[4000000000, 2 ** 63 + 5], [3, 10 ** 15], [123456789, 7]])
        for (i, j, delta) in ((0, 0, 1), (0, 1, 1), (1, 1, -1), (2, 0, 1), (0, 0, -1)):
            ev = [list(r) for r in big['events']]
            ev[i][j] += delta
            edits.append(('largeint cell (%d,%d) %+d' % (i, j, delta), (big, dict(big, events=ev))))
        for dt, fmt, ufmt in (('F', '>f', '>I'), ('D', '>d', '>Q')):
            vals = [[-131.22, 1.0], [1e-30, 65536.5], [0.0, 3.0e5]]
            base = dict(lay, datatype=dt, bits=[32 if dt == 'F' else 64] * 2, ranges=[262144] * 2,
                        events=[[fcsgen.float_bits(v, dt) for v in r] for r in vals])
            for i in range(3):
                for j in range(2):
                    ev = [list(r) for r in base['events']]
                    ev[i][j] += 1            # the next representable value (adjacent bit pattern)
                    edits.append(('float%s cell (%d,%d) next representable value' % (dt, i, j), (base, dict(base, events=ev))))
            # two loads of one file with infinite events must still compare equal
            inf_l = dict(base, events=[[fcsgen.float_bits(float('inf'), dt), fcsgen.float_bits(1.0, dt)], [fcsgen.float_bits(float('-inf'), dt), fcsgen.float_bits(2.5, dt)]])
            edits.append(('float%s identical files with +-inf events' % dt, (inf_l, inf_l, 'must-equal')))
            # ... and so must two loads of a file with NaN events (the same events were recorded)
            nan_l = dict(base, events=[[fcsgen.float_bits(float('nan'), dt), fcsgen.float_bits(1.0, dt)], [fcsgen.float_bits(2.5, dt), fcsgen.float_bits(float('nan'), dt)]])
            edits.append(('float%s identical files with NaN events' % dt, (nan_l, nan_l, 'must-equal')))
            # a non-finite event against the finite value a "cleaning" conversion would turn it into: different files
            fmax = 3.4028234663852886e38 if dt == 'F' else 1.7976931348623157e308
            for a_, b_, nm in ((float('nan'), 0.0, 'NaN vs 0.0'), (float('inf'), fmax, '+inf vs largest finite'), (float('-inf'), -fmax, '-inf vs most negative finite'),
                               (float('nan'), 1.0, 'NaN vs 1.0'), (float('inf'), float('-inf'), '+inf vs -inf'), (float('nan'), float('inf'), 'NaN vs +inf')):
                la = dict(base, events=[[fcsgen.float_bits(a_, dt), fcsgen.float_bits(1.0, dt)], [fcsgen.float_bits(2.5, dt), fcsgen.float_bits(3.0, dt)]])
                lb = dict(base, events=[[fcsgen.float_bits(b_, dt), fcsgen.float_bits(1.0, dt)], [fcsgen.float_bits(2.5, dt), fcsgen.float_bits(3.0, dt)]])
                edits.append(('float%s cell %s' % (dt, nm), (la, lb)))
                edits.append(('float%s cell %s (other way round)' % (dt, nm), (lb, la)))
            ev = [list(r) for r in base['events']]
            ev[2][0] = fcsgen.float_bits(-0.0, dt)
            edits.append(('float%s +0.0 -> -0.0 (equal values; either answer accepted)' % dt, (base, dict(base, events=ev), 'either')))
        l2 = dict(lay)
        l2['events'] = lay['events'][:-1]
        edits.append(('one event fewer', l2))
    else:
        for k_, v in (('KEY1', 'v1x'), ('KEY1', 'V1'), ('KEY2', 'v2 ')):
            l2 = dict(lay)
            l2['extra'] = [(kk, v if kk == k_ else vv) for kk, vv in lay['extra']]
            edits.append(('keyword %s -> %r' % (k_, v), l2))
        l2 = dict(lay)
        l2['extra'] = lay['extra'] + [('KEY3', 'v3')]
        edits.append(('keyword added', l2))
        l2 = dict(lay)
        l2['extra'] = lay['extra'][:1]
        edits.append(('keyword removed', l2))
        l2 = dict(lay)
        l2['extra'] = [('KEY2', 'v1'), ('KEY1', 'v2')]
        edits.append(('values swapped between keywords', l2))
        for an in ([('AK', 'av2')], [('AK2', 'av')], [('AK', 'av'), ('B', 'c')], None, [('AK', 'aw')], [('AL', 'av')], [('av', 'AK')]):
            l2 = dict(lay)
            l2['analysis'] = an
            edits.append(('analysis -> %r' % (an,), l2))
        l2 = dict(lay)
        l2['names'] = ['CH1', 'CHX']
        edits.append(('channel renamed', l2))
        # the same keyword edits on FCS 2.0 files (no offsets among the keywords: the edited keyword is the ONLY difference between the files)
        lay2 = dict(lay, version='FCS2.0')
        for k_, v in (('KEY1', 'v1x'), ('KEY1', 'V1'), ('KEY2', 'v2 '), ('KEY2', ' v2'), ('KEY1', 'v1  '), ('KEY2', 'v\t2')):
            edits.append(('keyword (FCS2.0) %s -> %r' % (k_, v), (lay2, dict(lay2, extra=[(kk, v if kk == k_ else vv) for kk, vv in lay['extra']]))))
        edits.append(('keyword (FCS2.0) added', (lay2, dict(lay2, extra=lay['extra'] + [('KEY3', 'v3')]))))
        edits.append(('keyword (FCS2.0) added in front', (lay2, dict(lay2, extra=[('AAA', 'v0')] + lay['extra']))))
        edits.append(('keyword (FCS2.0) removed', (lay2, dict(lay2, extra=lay['extra'][:1]))))
        edits.append(('keyword (FCS2.0) values differing in blanks only', (dict(lay2, extra=[('KEY1', 'lot 42  '), ('KEY2', 'v2')]), dict(lay2, extra=[('KEY1', '  lot 42'), ('KEY2', 'v2')]))))
        # two files with the same HEADER, offsets and events, one of which holds one keyword more (in what is blank padding at the end of
        # the other's TEXT segment): unequal whichever is asked first
        for ver in ('FCS2.0', 'FCS3.0'):
            lz = dict(lay, version=ver, extra=lay['extra'] + [('ZZLAST', 'q')])
            bz, iz = fcsgen.build(dict(lz))
            tail = ('ZZLAST' + D_ + 'q' + D_).encode()
            pos_ = bz.find(tail)
            if pos_ > 0 and pos_ + len(tail) - 1 == iz['text_end'] and bz.count(tail) == 1:
                without = bz[:pos_] + b' ' * len(tail) + bz[pos_ + len(tail):]
                edits.append(('keyword (%s) present in one file, blank padding in the other (file without it asked first)' % ver, (without, bz)))
                edits.append(('keyword (%s) present in one file, blank padding in the other (file with it asked first)' % ver, (bz, without)))
        edits.append(('analysis (FCS2.0) keyword added', (lay2, dict(lay2, analysis=[('AK', 'av'), ('B', 'c')]))))
        edits.append(('analysis (FCS2.0) value with a trailing blank', (lay2, dict(lay2, analysis=[('AK', 'av ')]))))
    for name, l2 in edits:
        either = False
        try:
            if isinstance(l2, tuple):
                refl = write(l2[0])
                either = len(l2) > 2
                other = write(l2[1])
            else:
                other = write(l2)
                refl = ref
        except Exception as e:
            res.violation('file-eq:load-raises:%s' % type(e).__name__, 'a well-formed file written to the path of an earlier, different file (%s) could not be loaded: %s: %s' % (
                name, type(e).__name__, e), dict(c))
            continue
        if either and l2[2] == 'must-equal':
            if not (refl == other) or (refl != other) or hash(refl) != hash(other):
                res.violation('file-eq:identical-unequal', '%s compare unequal' % name, dict(c))
            else:
                res.ok('file-eq:identical', True)
            continue
        if either:
            res.ok('file-eq:equal-valued-cells', True)
            continue
        if (refl == other) or not (refl != other) or (other == refl) or not (other != refl):
            res.violation('file-eq:differing:%s' % name.split(' ')[0], 'files differing by %s compare equal (== one way round: %s, the other way round: %s)' % (
                name, refl == other, other == refl), dict(c))
        else:
            res.ok('file-eq:differing', True)
    res.counters['transitions'] += len(edits) + 1
    res.counters['traces_validated_against_impl'] += len(edits) + 1
    res.hashes.add('file-eq:' + c['part'])
    res.sample({'file_edits': [e[0] for e in edits]})
    return res
