"""C03 -- RFI conversion applies exactly the amplifier law of each selected channel (E1)."""
import itertools
import os
import warnings

import numpy as np

from .. import fcsgen
from ..fingerprint import fp, meta, diff
from ..runner import Result, scratch

ID = 'C03'
LEVEL = 'exploration'
TECHNIQUE = ('exhaustive enumeration of every ordered channel subset x name/position spelling x override assignment '
             '(amplification type, gain, resolution: each absent or explicit from a menu) on a sample whose columns hold '
             'every channel value of the detector; each call compared with the amplifier law evaluated in the math module, '
             'with the untouched channels/metadata bitwise, and with every sequential ordering of single-channel calls')
RULE = ('one evaluation = one to_rfi call (plus its sequential re-orderings); every (subset, spelling, override) combination '
        'of the stated menus exactly once; non-trivial = at least one channel selected; distinct by construction')
ASSUMPTIONS = ['relative tolerance 1e-12 between a1*10**(a0*x/r) in math and the NumPy evaluation (legitimately different operation order)',
               'override menus {(0,0),(3,1),(1.5,2)} x {0.5,3,None} x {512,4096,None}']
CHUNK = 2

PNE = ['4,1', '2.5,0', '0,0', '0,0']
RES = [1024, 256, 1000, 1024]
GAIN = [4.0, None, 2.0, None]           # (the first channel is log-amplified AND records a gain: used when the caller declares it linear)
FILE_AT = [(4.0, 1.0), (2.5, 1.0), (0.0, 0.0), (0.0, 0.0)]
NAMES = ['CH1', 'CH2', 'CH3', 'CH4']
ATM = [(0, 0), (3, 1), (1.5, 2), None, (0, 1), (0, 2.5)]          # zero decades = linear amplifier, whatever the offset field says
GM = [0.5, 3, None, 7.25]
RM = [512, 4096, None, 1000]


GAIN_MENU = ['2.0', None, 'n/a', '0.5', '1e1']


PNE_SPELLINGS = [PNE, ['4.0,1.0', '2.5,0.0', '0.0,0.0', '0,0.0'], ['4.00,1', '2.50,0.00', '0,0', '0.0,0'], ['4,1.0', '2.5,0.', '0,0', '0,0']]


def sample(variant=0):
    import FlowCal
    events = [[i % r for r in RES] for i in range(1024)]
    extra = [('$P3G', ['2.0', '2', '2.00', '2.'][variant]), ('$P1G', ['4.0', '4', '4.00', '4.'][variant])]
    lay = dict(datatype='I', bits=[16] * 4, ranges=RES, pne=PNE_SPELLINGS[variant], events=events, byteord='4,3,2,1', extra=extra)
    p = os.path.join(scratch(), 'c03_%d.fcs' % variant)
    if not os.path.exists(p):
        buf, _ = fcsgen.build(lay)
        with open(p, 'wb') as f:
            f.write(buf)
    return FlowCal.io.FCSData(p)


def law(j, at, g, r, from_file=True):
    """effective per-channel function for original column j"""
    a = at if at is not None else (FILE_AT[j] if from_file else None)
    if a is None:
        return None
    if a[0] == 0:
        gg = g if g is not None else ((GAIN[j] if from_file else None) or 1.0)
        return lambda x: x / gg
    rr = r if r is not None else (RES[j] if from_file else None)
    if rr is None:
        return None
    return lambda x: a[1] * 10 ** (a[0] * x / float(rr))


def subsets(maxk=4):
    for k in range(0, maxk + 1):
        for p in itertools.permutations(range(4), k):
            yield list(p)


def cases(tier, seed):
    for S in subsets():
        yield dict(kind='list', S=S, tier=tier)
    yield dict(kind='scalar', tier=tier)
    yield dict(kind='subsample', tier=tier)
    yield dict(kind='narrow', tier=tier)
    for v in range(1, len(PNE_SPELLINGS)):
        yield dict(kind='spelling', variant=v, tier=tier)
    yield dict(kind='none', tier=tier)
    yield dict(kind='array', tier=tier)
    for nch in (9, 10, 12, 23):
        yield dict(kind='vendor', nch=nch, tier=tier)
    for cont in ('int sample', 'float sample', 'double sample', 'int array', 'double array'):
        yield dict(kind='lattice', container=cont, tier=tier)
    # gains as the file states them: per linear channel a number, nothing, or something that is not a number (documented: then the gain
    # counts as not specified, i.e. 1) -- the complete product over four linear channels around a log channel, with and without the
    # vendor's own gain keywords
    for vendor in (False, True):
        for first in GAIN_MENU:
            yield dict(kind='gainfile', vendor=vendor, first=first, tier=tier)
    # ... and with the gain keywords recorded in the supplemental TEXT segment (FCS 3.x) instead of the primary one
    for first in GAIN_MENU:
        yield dict(kind='gainfile', vendor=False, first=first, tier=tier, where='stext')
    yield dict(kind='refuse', tier=tier)
    yield dict(kind='case', tier=tier)


def bounds(tier, seed):
    return {'ordered_subsets': 65, 'spellings': 'positions, names, alternating' if tier == 'quick' else 'all 2^k',
            'override_variants_per_setting': 3 if tier == 'quick' else 4}


def spellings(S, tier):
    k = len(S)
    if k == 0:
        return [[]]
    if tier == 'thorough':
        pats = list(itertools.product([0, 1], repeat=k))
    else:
        pats = {tuple([0] * k), tuple([1] * k), tuple(i % 2 for i in range(k)), tuple((i + 1) % 2 for i in range(k))}
    return [[NAMES[j] if b else j for j, b in zip(S, pat)] for pat in sorted(pats)]


def variants(menu, k, tier):
    n = 3 if tier == 'quick' else 4
    out = [None]
    for sh in range(n - 1):
        out.append([menu[(i + sh) % len(menu)] for i in range(k)])
    return out


def expect_ok(res, sig, what, d, base, t, laws, one):
    """laws: dict original column -> function; compares t with the reference"""
    if not hasattr(t, 'shape') or t.shape != d.shape or np.asarray(t).dtype != np.float64:
        res.violation(sig + ':shape', '%s returned shape/dtype %s %s' % (what, getattr(t, 'shape', None), getattr(t, 'dtype', None)), one)
        return False
    a = np.asarray(t)
    for j in range(d.shape[1]):
        col = base[:, j]
        if j in laws:
            f = laws[j]
            for x, y in zip(col.tolist(), a[:, j].tolist()):
                e = f(float(x))
                if not (y == e or abs(y - e) <= 1e-12 * max(abs(e), abs(y))):
                    res.violation(sig + ':law', '%s: channel %d value %r converted to %r, the amplifier law gives %r' % (what, j, x, y, e), one)
                    return False
        elif not np.array_equal(a[:, j], col.astype(np.float64)) or a[:, j].tobytes() != col.astype(np.float64).tobytes():
            res.violation(sig + ':untouched', '%s: unselected channel %d changed' % (what, j), one)
            return False
    if hasattr(d, 'channels'):
        dm = diff(meta(t, with_range=False), meta(d, with_range=False))
        if dm:
            res.violation(sig + ':metadata', '%s: non-range metadata changed: %s' % (what, dm), one)
            return False
        for j in range(d.shape[1]):
            if j not in laws and t.range(j) != d.range(j):
                res.violation(sig + ':range-untouched', '%s: range of unselected channel %d changed' % (what, j), one)
                return False
    return True


def same(a, b):
    return fp(a) == fp(b)


def run_case(c):
    import FlowCal
    res = Result()
    tier = c.get('tier', 'quick')
    to_rfi = FlowCal.transform.to_rfi
    d = sample()
    base = np.array(d.view(np.ndarray))
    with warnings.catch_warnings():
        warnings.simplefilter('ignore')
        if c['kind'] == 'list':
            S = c['S']
            k = len(S)
            only = c.get('only')
            for sp in spellings(S, tier):
                for at in variants(ATM, k, tier):
                    for g in variants(GM, k, tier):
                        for r in variants(RM, k, tier):
                            key = [repr(sp), repr(at), repr(g), repr(r)]
                            if only and key != only:
                                continue
                            one = dict(kind='list', S=S, tier=tier, only=key)
                            what = 'to_rfi(sample, %r, amplification_type=%r, amplifier_gain=%r, resolution=%r)' % (sp, at, g, r)
                            laws = {}
                            for i, j in enumerate(S):
                                laws[j] = law(j, at[i] if at else None, g[i] if g else None, r[i] if r else None)
                            before_args = repr((sp, at, g, r))
                            try:
                                t = to_rfi(d, sp, amplification_type=at, amplifier_gain=g, resolution=r)
                            except Exception as e:
                                res.violation('list:raises:%s' % type(e).__name__, '%s raised %s: %s' % (what, type(e).__name__, e), one)
                                continue
                            if repr((sp, at, g, r)) != before_args:
                                # the caller's own lists (which it may reuse for the next sample) must come back as they were handed in
                                res.violation('list:arguments-changed', '%s changed the caller\'s argument lists to %r' % (what, (sp, at, g, r)), one)
                                continue
                            if not expect_ok(res, 'list', what, d, base, t, laws, one):
                                continue
                            # the per-channel settings in other containers than lists (tuples, NumPy arrays): same answer
                            if k:
                                at2 = tuple(at) if at else None
                                g2 = (np.array(g, dtype=float) if None not in g else tuple(g)) if g else None
                                r2 = (np.array(r) if None not in r else tuple(r)) if r else None
                                try:
                                    t_alt = to_rfi(d, tuple(sp), amplification_type=at2, amplifier_gain=g2, resolution=r2)
                                except Exception as e:
                                    res.violation('list:containers-raises:%s' % type(e).__name__, '%s with the settings as tuples / NumPy arrays raised %s: %s' % (what, type(e).__name__, e), one)
                                    continue
                                if not same(t_alt, t):
                                    res.violation('list:containers', '%s gives another result with the settings as tuples / NumPy arrays: %s' % (what, diff(fp(t_alt), fp(t))), one)
                                    continue
                            # one channel at a time, in every order (for k <= 3), equals the batch call bitwise
                            okseq = True
                            orders = list(itertools.permutations(range(k))) if k <= 3 else [tuple(range(k)), tuple(reversed(range(k)))]
                            for order in orders:
                                cur = d
                                try:
                                    for i in order:
                                        cur = to_rfi(cur, sp[i], amplification_type=at[i] if at else None,
                                                     amplifier_gain=g[i] if g else None, resolution=r[i] if r else None)
                                except Exception as e:
                                    res.violation('list:sequential-raises:%s' % type(e).__name__, '%s: converting one channel at a time in order %r raised %s: %s' % (
                                        what, [sp[i] for i in order], type(e).__name__, e), one)
                                    okseq = False
                                    break
                                if k and not same(cur, t):
                                    res.violation('list:sequential', '%s differs from converting one channel at a time in order %r: %s' % (
                                        what, [sp[i] for i in order], diff(fp(cur), fp(t))), one)
                                    okseq = False
                                    break
                            if okseq:
                                res.ok('list:k=%d' % k, k > 0)
            res.sample({'channels': spellings(S, tier)[-1], 'override menus': [repr(ATM), repr(GM), repr(RM)]})
        elif c['kind'] == 'lattice':
            # explicit-state search over the conversion lattice: a state is the set of channels converted so far, its object is
            # kept and reused as the starting point of every successor (so a conversion that works in place on a double-precision
            # input, or that leaves something shared between input and output, makes two paths to one state disagree)
            cont = c['container']
            if cont.endswith('sample') and cont != 'int sample':
                dt = 'F' if cont.startswith('float') else 'D'
                lay = dict(datatype=dt, bits=[32 if dt == 'F' else 64] * 4, ranges=RES, pne=PNE,
                           events=[[fcsgen.float_bits(float(i % r), dt) for r in RES] for i in range(1024)], byteord='4,3,2,1', extra=[('$P3G', '2.0')])
                p = os.path.join(scratch(), 'c03_%s.fcs' % dt)
                buf, _ = fcsgen.build(lay)
                with open(p, 'wb') as f:
                    f.write(buf)
                root = FlowCal.io.FCSData(p)
            elif cont == 'int sample':
                root = d
            else:
                root = base.copy() if cont == 'int array' else base.astype(np.float64)
            is_sample = hasattr(root, 'channels')
            rbase = np.array(np.asarray(root))
            kw = (lambda j: {}) if is_sample else (lambda j: dict(amplification_type=FILE_AT[j], amplifier_gain=GAIN[j], resolution=RES[j]))
            kwl = (lambda S: {}) if is_sample else (lambda S: dict(amplification_type=[FILE_AT[j] for j in S], amplifier_gain=[GAIN[j] for j in S], resolution=[RES[j] for j in S]))
            states = {frozenset(): root}
            prints = {frozenset(): fp(root)}
            frontier = [frozenset()]
            ntr = 0
            bad = False
            while frontier and not bad:
                nxt = []
                for st in frontier:
                    for j in range(4):
                        if j in st:
                            continue
                        for sp in ((j, NAMES[j]) if is_sample else (j,)):
                            what = 'to_rfi(%s with %s converted, %r)' % (cont, sorted(st), sp)
                            try:
                                y = to_rfi(states[st], sp, **kw(j))
                            except Exception as e:
                                res.violation('lattice:raises:%s' % type(e).__name__, '%s raised %s: %s' % (what, type(e).__name__, e), dict(c))
                                bad = True
                                break
                            ntr += 1
                            st2 = st | {j}
                            laws = {i: law(i, None, None, None) for i in st2}
                            if not expect_ok(res, 'lattice', what, root, rbase, y, laws, dict(c)):
                                bad = True
                                break
                            if fp(states[st]) != prints[st]:
                                res.violation('lattice:input-changed', '%s changed the sample it was given: %s' % (what, diff(fp(states[st]), prints[st])), dict(c))
                                bad = True
                                break
                            if st2 not in states:
                                states[st2] = y
                                prints[st2] = fp(y)
                                nxt.append(st2)
                                S = sorted(st2)
                                tb = to_rfi(root, S, **kwl(S))
                                if not same(tb, y):
                                    res.violation('lattice:batch', '%s differs from the single call converting %r: %s' % (what, S, diff(fp(y), fp(tb))), dict(c))
                                    bad = True
                                    break
                            elif fp(y) != prints[st2]:
                                res.violation('lattice:path', '%s differs from the same channels converted along another path: %s' % (what, diff(fp(y), prints[st2])), dict(c))
                                bad = True
                                break
                            res.ok('lattice:%s' % cont, True)
                        if bad:
                            break
                    if bad:
                        break
                frontier = nxt
            if not bad:
                for st, obj in states.items():
                    if fp(obj) != prints[st]:
                        res.violation('lattice:state-changed', 'the %s with %s converted changed after later conversions started from it' % (cont, sorted(st)), dict(c))
                        break
            res.counters['lattice_states'] += len(states)
            res.counters['lattice_transitions'] += ntr
            res.sample({'container': cont, 'states': len(states), 'transitions': ntr})
        elif c['kind'] == 'vendor':
            # gains recorded only in the vendor keywords (FlowJo Collector's Edition: CytekPnnG), on files with ten and more channels
            nch = c['nch']
            gains = [1.5 + 0.25 * j for j in range(nch)]
            lay = dict(datatype='I', bits=[16] * nch, ranges=[1024] * nch, pne=['0,0'] * nch, byteord='4,3,2,1',
                       events=[[(37 * i + 11 * j) % 1024 for j in range(nch)] for i in range(40)],
                       extra=[('CREATOR', 'FlowJoCollectorsEdition 7.5')] + [('CytekP%02dG' % (j + 1), repr(gains[j])) for j in range(nch)])
            pv = os.path.join(scratch(), 'c03_vendor.fcs')
            buf, _ = fcsgen.build(lay)
            with open(pv, 'wb') as f:
                f.write(buf)
            dv = FlowCal.io.FCSData(pv)
            vbase = np.array(dv.view(np.ndarray))
            reqs = [(None, list(range(nch)))] + [(j, [j]) for j in range(nch)] + [('CH%d' % (j + 1), [j]) for j in range(nch)] + \
                   [([nch - 1, 0, nch // 2], [nch - 1, 0, nch // 2])]
            for req, cols in reqs:
                what = 'to_rfi(sample with %d linear channels, gains in CytekPnnG only, %r)' % (nch, req)
                try:
                    t = to_rfi(dv, req)
                except Exception as e:
                    res.violation('vendor:raises:%s' % type(e).__name__, '%s raised %s: %s' % (what, type(e).__name__, e), dict(c))
                    continue
                if expect_ok(res, 'vendor', what, dv, vbase, t, {j: (lambda x, g=gains[j]: x / g) for j in cols}, dict(c)):
                    res.ok('vendor', True)
            res.sample({'channels': nch, 'gains': 'CytekP01G..CytekP%02dG' % nch})
        elif c['kind'] == 'case':
            # channel names that differ only in letter case are different channels ($PnN is case sensitive), each with its own amplifier
            cnames = ['FL1-H', 'FL1-h', 'fl1-H', 'FL2-H', 'fl2-h']
            lay = dict(datatype='I', bits=[16] * 5, ranges=[1024] * 5, names=cnames, pne=['4,1', '0,0', '2,0.5', '0,0', '3,1'], byteord='4,3,2,1',
                       events=[[(37 * i + 11 * j) % 1024 for j in range(5)] for i in range(16)] + [[0] * 5, [1023] * 5],
                       extra=[('$P2G', '8.0'), ('$P4G', '0.5')])
            pc = os.path.join(scratch(), 'c03_case.fcs')
            buf, _ = fcsgen.build(lay)
            with open(pc, 'wb') as f:
                f.write(buf)
            dc = FlowCal.io.FCSData(pc)
            cbase = np.array(dc.view(np.ndarray))
            claws = {0: lambda x: 1.0 * 10 ** (4.0 * x / 1024.0), 1: lambda x: x / 8.0, 2: lambda x: 0.5 * 10 ** (2.0 * x / 1024.0), 3: lambda x: x / 0.5,
                     4: lambda x: 1.0 * 10 ** (3.0 * x / 1024.0)}
            reqs = [(n_, [j]) for j, n_ in enumerate(cnames)] + [([cnames[1], cnames[0]], [1, 0]), ([cnames[4], cnames[2], cnames[3]], [4, 2, 3]), (None, [0, 1, 2, 3, 4]),
                                                                (list(reversed(cnames)), [4, 3, 2, 1, 0])]
            for req, cols in reqs:
                what = 'to_rfi(sample with channels %r, %r)' % (cnames, req)
                try:
                    t = to_rfi(dc, req)
                except Exception as e:
                    res.violation('case:raises:%s' % type(e).__name__, '%s raised %s: %s' % (what, type(e).__name__, e), dict(c))
                    continue
                if expect_ok(res, 'case', what, dc, cbase, t, {j: claws[j] for j in cols}, dict(c)):
                    res.ok('case', True)
            for bad in ('FL1-h '.strip() + 'x', 'FL2-h', 'Fl1-H', 'FL1-H '):
                try:
                    to_rfi(dc, bad)
                    res.violation('case:unknown-accepted', 'to_rfi(sample with channels %r, %r): a name the sample does not have was accepted' % (cnames, bad), dict(c))
                except Exception:
                    res.ok('case:refused', True)
            res.sample({'channel names': cnames})
        elif c['kind'] == 'gainfile':
            lin = [0, 1, 3, 4]                   # column 2 is a log amplifier
            nfile = 0
            for rest in itertools.product(GAIN_MENU, repeat=3):
                spec = [c['first']] + list(rest)
                if c.get('only') and spec != c['only']:
                    continue
                extra = [('$P%dG' % (j + 1), g) for j, g in zip(lin, spec) if g is not None]
                cy = {}
                if c['vendor']:
                    cy = {j: 3.0 + j for j in (0, 1, 2, 4)}           # none recorded for column 3
                    extra += [('CREATOR', 'FlowJoCollectorsEdition 7.5')] + [('CytekP%02dG' % (j + 1), repr(g)) for j, g in cy.items()]
                lay = dict(datatype='I', bits=[16] * 5, ranges=[1024] * 5, pne=['0,0', '0,0', '4,1', '0,0', '0,0'], byteord='4,3,2,1',
                           events=[[(37 * i + 11 * j) % 1024 for j in range(5)] for i in range(12)] + [[0] * 5, [1023] * 5], extra=extra)
                if c.get('where') == 'stext':
                    lay.update(version='FCS3.1', extra=[('NOTE', 'gains in the supplemental segment')], stext=list(extra) or [('NOTE2', 'none')],
                               stext_pos=('after', 'before')[len(extra) % 2])
                pg = os.path.join(scratch(), 'c03_gain.fcs')
                buf, _ = fcsgen.build(lay)
                with open(pg, 'wb') as f:
                    f.write(buf)
                one = dict(c, only=list(spec))
                what0 = 'sample with $PnG of the linear channels 1,2,4,5 = %r%s%s' % (spec, ' and CytekPnnG for channels 1,2,3,5' if c['vendor'] else '',
                                                                                              ' (recorded in the supplemental TEXT segment)' if c.get('where') == 'stext' else '')
                try:
                    dg = FlowCal.io.FCSData(pg)
                    gl = list(dg.amplifier_gain())
                except Exception as e:
                    res.violation('gainfile:load-raises:%s' % type(e).__name__, '%s: loading / amplifier_gain() raised %s: %s' % (what0, type(e).__name__, e), one)
                    continue
                nfile += 1
                want = [None] * 5
                for j, g in zip(lin, spec):
                    if g is None:
                        want[j] = cy.get(j)
                    else:
                        try:
                            want[j] = float(g)
                        except ValueError:
                            want[j] = None
                if 2 in cy:
                    want[2] = cy[2]
                if gl != want:
                    res.violation('gainfile:gains', '%s: amplifier_gain() = %r, the keywords say %r' % (what0, gl, want), one)
                    continue
                gbase = np.array(dg.view(np.ndarray))
                laws = {j: (lambda x, g=(want[j] or 1.0): x / g) for j in lin}
                laws[2] = lambda x: 10 ** (4.0 * x / 1024.0)
                ok = True
                for req, cols in [(None, [0, 1, 2, 3, 4]), ([4, 3, 2, 1, 0], [0, 1, 2, 3, 4]), (['CH5', 'CH1'], [4, 0])] + [(j, [j]) for j in range(5)]:
                    what = 'to_rfi(%s, %r)' % (what0, req)
                    try:
                        t = to_rfi(dg, req)
                    except Exception as e:
                        res.violation('gainfile:raises:%s' % type(e).__name__, '%s raised %s: %s' % (what, type(e).__name__, e), one)
                        ok = False
                        break
                    if not expect_ok(res, 'gainfile', what, dg, gbase, t, {j: laws[j] for j in cols}, one):
                        ok = False
                        break
                if ok:
                    res.ok('gainfile', True)
            res.sample({'gain spellings': GAIN_MENU, 'files': nfile, 'vendor keywords': c['vendor']})
        elif c['kind'] == 'narrow':
            # events held in 8- and 16-bit unsigned types, every value of the type's upper half included; settings given
            # as Python ints, floats, or taken from the file
            lay8 = dict(datatype='I', bits=[8, 8], ranges=[256, 256], pne=['4,1', '0,0'], events=[[i, 255 - i] for i in range(256)], byteord='1,2,3,4')
            p8 = os.path.join(scratch(), 'c03_8.fcs')
            buf, _ = fcsgen.build(lay8)
            with open(p8, 'wb') as f:
                f.write(buf)
            d8 = FlowCal.io.FCSData(p8)
            vals16 = sorted(set([0, 1, 255, 256, 16383, 16384, 21845, 21846, 32767, 32768, 65535] + list(range(0, 65536, 257))))
            lay16 = dict(datatype='I', bits=[16, 16], ranges=[65536, 65536], pne=['4,1', '0,0'], events=[[v, 65535 - v] for v in vals16], byteord='4,3,2,1')
            p16 = os.path.join(scratch(), 'c03_16.fcs')
            buf, _ = fcsgen.build(lay16)
            with open(p16, 'wb') as f:
                f.write(buf)
            d16 = FlowCal.io.FCSData(p16)
            conts = [('8-bit sample', d8, 256), ('16-bit sample', d16, 65536), ('uint8 array', np.array(d8.view(np.ndarray)), 256),
                     ('uint16 array', np.array(d16.view(np.ndarray)), 65536)]
            for label, data, rr in conts:
                nb = np.array(np.asarray(data))
                for at in ([(4, 1)], [(4.0, 1.0)], [(3, 2)], [(8, 1)], [(2.5, 1)], None):
                    for gsp in (None, [2], [2.0]):
                        if at is None and not hasattr(data, 'channels'):
                            continue
                        what = 'to_rfi(%s, [0], amplification_type=%r, amplifier_gain=%r, resolution=%r)' % (label, at, gsp, [rr])
                        a_eff = at[0] if at else (4.0, 1.0)
                        f = lambda x, a=a_eff: a[1] * 10 ** (a[0] * x / float(rr))
                        try:
                            t = to_rfi(data, [0], amplification_type=at, amplifier_gain=gsp, resolution=[rr])
                        except Exception as e:
                            res.violation('narrow:raises:%s' % type(e).__name__, '%s raised %s: %s' % (what, type(e).__name__, e), dict(c))
                            continue
                        if expect_ok(res, 'narrow', what, data, nb, t, {0: f}, dict(c)):
                            res.ok('narrow', True)
                # linear channel with integer gain on narrow types
                for gsp in ([2], [3], [0.5]):
                    what = 'to_rfi(%s, [1], amplification_type=[(0, 0)], amplifier_gain=%r)' % (label, gsp)
                    try:
                        t = to_rfi(data, [1], amplification_type=[(0, 0)], amplifier_gain=gsp)
                    except Exception as e:
                        res.violation('narrow:raises:%s' % type(e).__name__, '%s raised %s: %s' % (what, type(e).__name__, e), dict(c))
                        continue
                    if expect_ok(res, 'narrow', what, data, nb, t, {1: (lambda x, g=gsp[0]: x / g)}, dict(c)):
                        res.ok('narrow', True)
            res.sample({'containers': [x[0] for x in conts], 'amplification_type forms': 'int tuples, float tuples, from file'})
        elif c['kind'] == 'subsample':
            # samples obtained by indexing: the per-channel settings must follow the columns
            subs = [('d[:, 1:]', d[:, 1:], [1, 2, 3]), ('d[:, ::-1]', d[:, ::-1], [3, 2, 1, 0]), ("d[:, ['CH4', 'CH2']]", d[:, ['CH4', 'CH2']], [3, 1]),
                    ('d[100:200, 2:]', d[100:200, 2:], [2, 3]), ('d[:, 1:3][:, ::-1]', d[:, 1:3][:, ::-1], [2, 1]), ("d[:, 'CH2']  (1-D)", None, None),
                    ('d[::7, [0, 1]]', d[::7, [0, 1]], [0, 1]), ('d[:, -3:-1]', d[:, -3:-1], [1, 2]),
                    ('d[:0]  (no events)', d[:0], [0, 1, 2, 3]), ('d[5:6]  (one event)', d[5:6], [0, 1, 2, 3]),
                    ('d[d[:, 0] > 5000]  (mask selecting nothing)', d[np.asarray(d[:, 0]) > 5000], [0, 1, 2, 3]), ('d[:1, [3]]', d[:1, [3]], [3])]
            for label, sub, cols in subs:
                if sub is None:
                    continue
                sbase = np.array(sub.view(np.ndarray))
                requests = [(None, list(range(len(cols))))] + [(sub.channels[i], [i]) for i in range(len(cols))] + [(list(range(len(cols)))[::-1], list(range(len(cols))))]
                for req, sel in requests:
                    what = 'to_rfi(%s, %r)' % (label, req)
                    try:
                        t = to_rfi(sub, req)
                    except Exception as e:
                        res.violation('subsample:raises:%s' % type(e).__name__, '%s raised %s: %s' % (what, type(e).__name__, e), dict(c))
                        continue
                    if expect_ok(res, 'subsample', what, sub, sbase, t, {i: law(cols[i], None, None, None) for i in sel}, dict(c)):
                        res.ok('subsample', True)
                        # the converted limits do not depend on which events are present
                        full_t = to_rfi(d, [cols[i] for i in sel])
                        for i in sel:
                            if [float(x).hex() for x in t.range(i)] != [float(x).hex() for x in full_t.range(cols[i])]:
                                res.violation('subsample:range', '%s: range of channel %d is %r, the full sample converts to %r' % (what, i, t.range(i), full_t.range(cols[i])), dict(c))
                                break
            res.sample({'subsamples': [x[0] for x in subs]})
        elif c['kind'] == 'spelling':
            # the same amplifier settings written with other numeric spellings in $PnE / $PnG
            d2 = sample(c['variant'])
            for chans, cols in [(None, [0, 1, 2, 3])] + [(NAMES[j], [j]) for j in range(4)] + [([3, 'CH2', 0], [3, 1, 0])]:
                what = 'to_rfi(sample with $PnE spelled %r, %r)' % (PNE_SPELLINGS[c['variant']], chans)
                try:
                    t = to_rfi(d2, chans)
                except Exception as e:
                    res.violation('spelling:raises:%s' % type(e).__name__, '%s raised %s: %s' % (what, type(e).__name__, e), dict(c))
                    continue
                if expect_ok(res, 'spelling', what, d2, base, t, {j: law(j, None, None, None) for j in cols}, dict(c)):
                    res.ok('spelling', True)
            res.sample({'$PnE spellings': PNE_SPELLINGS[c['variant']]})
        elif c['kind'] == 'scalar':
            for j in range(4):
                for sp in (j, NAMES[j], j - 4):
                    for at in ATM:
                        for g in GM:
                            for r in RM:
                                one = dict(c)
                                what = 'to_rfi(sample, %r, amplification_type=%r, amplifier_gain=%r, resolution=%r)' % (sp, at, g, r)
                                try:
                                    t = to_rfi(d, sp, amplification_type=at, amplifier_gain=g, resolution=r)
                                except Exception as e:
                                    res.violation('scalar:raises:%s' % type(e).__name__, '%s raised %s: %s' % (what, type(e).__name__, e), one)
                                    continue
                                if expect_ok(res, 'scalar', what, d, base, t, {j: law(j, at, g, r)}, one):
                                    t2 = to_rfi(d, [sp], amplification_type=[at], amplifier_gain=[g], resolution=[r])
                                    if not same(t, t2):
                                        res.violation('scalar:vs-list', '%s differs from the one-element list call' % what, one)
                                    else:
                                        res.ok('scalar', True)
            res.sample({'channels': 'scalar name / position / negative position', 'overrides': 'full menu product'})
        elif c['kind'] == 'none':
            for at in variants(ATM, 4, 'thorough'):
                for g in variants(GM, 4, 'thorough'):
                    for r in variants(RM, 4, 'thorough'):
                        what = 'to_rfi(sample, None, amplification_type=%r, amplifier_gain=%r, resolution=%r)' % (at, g, r)
                        laws = {j: law(j, at[j] if at else None, g[j] if g else None, r[j] if r else None) for j in range(4)}
                        try:
                            t = to_rfi(d, None, amplification_type=at, amplifier_gain=g, resolution=r)
                        except Exception as e:
                            res.violation('none:raises:%s' % type(e).__name__, '%s raised %s: %s' % (what, type(e).__name__, e), dict(c))
                            continue
                        if expect_ok(res, 'none', what, d, base, t, laws, dict(c)):
                            t2 = to_rfi(d, list(NAMES), amplification_type=at, amplifier_gain=g, resolution=r)
                            if not same(t, t2):
                                res.violation('none:vs-names', '%s differs from naming all channels' % what, dict(c))
                            else:
                                res.ok('all-channels', True)
            # defaults also with no argument at all
            t = to_rfi(d)
            if expect_ok(res, 'none', 'to_rfi(sample)', d, base, t, {j: law(j, None, None, None) for j in range(4)}, dict(c)):
                res.ok('all-channels', True)
            res.sample({'channels': None})
        elif c['kind'] == 'array':
            arr = base.copy()
            for S in subsets(2):
                for at in variants(ATM[:3], len(S), tier)[1:]:
                    for g in variants(GM, len(S), tier):
                        for r in variants(RM[:2] + [1000, 256], len(S), tier)[1:]:
                            what = 'to_rfi(array, %r, amplification_type=%r, amplifier_gain=%r, resolution=%r)' % (S, at, g, r)
                            laws = {j: law(j, at[i], g[i] if g else None, r[i], from_file=False) for i, j in enumerate(S)}
                            try:
                                t = to_rfi(arr, S, amplification_type=at, amplifier_gain=g, resolution=r)
                            except Exception as e:
                                res.violation('array:raises:%s' % type(e).__name__, '%s raised %s: %s' % (what, type(e).__name__, e), dict(c))
                                continue
                            if expect_ok(res, 'array', what, arr, base, t, laws, dict(c)):
                                res.ok('array', len(S) > 0)
            # a linear amplifier needs no resolution: plain arrays converted with the resolution omitted / None for the linear channels
            for S in subsets(2):
                if not S:
                    continue
                for gl in ([2.0] * len(S), None, [0.5, 4.0][:len(S)]):
                    for rl in (None, [None] * len(S)):
                        what = 'to_rfi(array, %r, amplification_type=%r, amplifier_gain=%r, resolution=%r)' % (S, [(0, 0)] * len(S), gl, rl)
                        laws = {j: (lambda x, g=(gl[i] if gl else 1.0): x / g) for i, j in enumerate(S)}
                        try:
                            t = to_rfi(arr, S, amplification_type=[(0, 0)] * len(S), amplifier_gain=gl, resolution=rl)
                        except Exception as e:
                            res.violation('array:linear-without-resolution:%s' % type(e).__name__, '%s raised %s: %s' % (what, type(e).__name__, e), dict(c))
                            continue
                        if expect_ok(res, 'array', what, arr, base, t, laws, dict(c)):
                            res.ok('array', True)
            # mixed: a log channel with its resolution, a linear one with None
            try:
                t = to_rfi(arr, [0, 1], amplification_type=[(4, 1), (0, 0)], amplifier_gain=[None, 2.0], resolution=[1024, None])
                if expect_ok(res, 'array', 'to_rfi(array, [0, 1], log + linear, resolution=[1024, None])', arr, base, t,
                             {0: lambda x: 10 ** (4 * x / 1024.0), 1: lambda x: x / 2.0}, dict(c)):
                    res.ok('array', True)
            except Exception as e:
                res.violation('array:linear-without-resolution:%s' % type(e).__name__, 'to_rfi(array, [0, 1], log + linear, resolution=[1024, None]) raised %s: %s' % (type(e).__name__, e), dict(c))
            # settings as lists of LISTS (the caller's nested containers come back as they were)
            nested = [[4.0, 0.0], [0.0, 0.0], [4.0, 1.0]]
            snap = repr(nested)
            inner = [id(x) for x in nested]
            try:
                to_rfi(arr, [0, 1, 2], amplification_type=nested, amplifier_gain=[None, 2.0, None], resolution=[1024, 256, 1000])
                to_rfi(d, [0, 1, 2], amplification_type=nested, amplifier_gain=[None, 2.0, None], resolution=[1024, 256, 1000])
            except Exception as e:
                res.violation('array:nested-lists-raises:%s' % type(e).__name__, 'to_rfi with amplification_type=%s raised %s: %s' % (snap, type(e).__name__, e), dict(c))
            if repr(nested) != snap or [id(x) for x in nested] != inner:
                res.violation('array:nested-argument-changed', 'to_rfi changed the caller\'s amplification_type from %s to %r' % (snap, nested), dict(c))
            else:
                res.ok('array', True)
            if not np.array_equal(arr, base):
                res.violation('array:input-changed', 'to_rfi changed its input array', dict(c))
            res.sample({'container': 'plain ndarray', 'channels': 'ordered subsets of size <= 2'})
        else:
            arr = base.copy()
            bad = []
            for tgt, tn in ((d, 'sample'), (arr, 'array')):
                for k in (1, 2, 3):
                    chans = list(range(k))
                    for wrong in (k - 1, k + 1):
                        if wrong < 1:
                            continue
                        bad.append((tgt, tn, chans, dict(amplification_type=[(0, 0)] * wrong)))
                        bad.append((tgt, tn, chans, dict(amplification_type=[(0, 0)] * k, amplifier_gain=[2.0] * wrong)))
                        bad.append((tgt, tn, chans, dict(amplification_type=[(3, 1)] * k, resolution=[1024] * wrong)))
                    bad.append((tgt, tn, chans, dict(amplification_type=[(0, 0)] * k, amplifier_gain=2.0)))
                    bad.append((tgt, tn, chans, dict(amplification_type=[(3, 1)] * k, resolution=1024)))
            bad.append((arr, 'array', [0], dict()))                              # no amplification type at all
            bad.append((arr, 'array', 0, dict()))
            bad.append((arr, 'array', None, dict()))
            bad.append((arr, 'array', [0], dict(amplification_type=[(3, 1)])))   # log amplifier, no resolution
            bad.append((d, 'sample', ['nope'], dict()))
            bad.append((d, 'sample', [4], dict()))
            for tgt, tn, chans, kw in bad:
                what = 'to_rfi(%s, %r, %s)' % (tn, chans, ', '.join('%s=%r' % kv for kv in kw.items()))
                try:
                    to_rfi(tgt, chans, **kw)
                except Exception:
                    res.ok('refused', True)
                    continue
                res.violation('not-refused:%s' % tn, '%s did not raise' % what, dict(c))
            res.sample({'refusals': len(bad)})
    return res
