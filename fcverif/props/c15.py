"""C15 -- a well-formed workbook always yields a complete, faithful output workbook (E1)."""
import itertools
import os
import shutil
import warnings

import numpy as np

from .. import workbookgen as wg, explore
from ..runner import Result, scratch

ID = 'C15'
LEVEL = 'exploration'
TECHNIQUE = ('bounded exhaustive enumeration of generated workbooks x options (plots, histogram sheet, output path) within a '
             'deviation bound, each run through excel_ui.run and the output workbook / figure files compared with the input and the '
             'documented additions; exhaustive write/read round trip of ALL 2x2 tables over a 6-value cell alphabet (and 3x3 latin '
             'arrangements); identifier handling (empty, duplicated); the shipped example workbook (thorough)')
RULE = ('one evaluation = one excel_ui.run (all sheets, rows, columns, figure files checked) or one table round trip; every '
        'configuration / table exactly once; non-trivial = a run with at least one bead or sample row, or a table with a non-empty '
        'cell; distinct by construction')
ASSUMPTIONS = ['well-formed generated workbooks only (healthy rows); faulty rows are C11',
               'an empty cell and NaN are the same cell value; numbers compare by value']
CHUNK = 1

CELLS = [None, 'a', 'b c', 0, 3, -1.5]
PNG = b'\x89PNG\r\n\x1a\n'


def cases(tier, seed):
    # several workbooks analysed by one process (first: nothing may be remembered from one analysis to the next): an analysis without
    # figures followed by one with figures in another directory, and the other way round
    sq = dict(ninst=1, nbeads=1, nsamples=2, units='mixed', cont='int', hist=True, outpath='default', nfl=2, cluster='all')
    for plots in ([False, True], [True, False, True], [True, True]):
        yield dict(kind='run-sequence', cfgs=[dict(sq, plot=p_, wbname='experiment%d' % i) for i, p_ in enumerate(plots)])
    tables = list(itertools.product(range(len(CELLS)), repeat=4))
    for i in range(0, len(tables), 162):
        yield dict(kind='roundtrip2x2', start=i, stop=min(len(tables), i + 162))
    yield dict(kind='roundtrip3x3')
    yield dict(kind='ids')
    dims = [('ninst', [1, 2]), ('nbeads', [1, 0, 2]), ('nsamples', [2, 1, 3]), ('units', ['mixed', 'all-mef', 'channel', 'none', 'all-rfi']),
            ('cont', ['int', 'float']), ('plot', [False, True]), ('hist', [False, True]), ('outpath', ['default', 'explicit', 'relative', 'bare', 'bare-explicit']),
            ('nfl', [2, 3, 4, 11]), ('cluster', ['all', 'one']), ('wbname', ['experiment', 'cells', 'samples.x', 'xls', 'Tables 2020-01']),
            ('ids', ['text', 'numbers', 'dotted']), ('hdr', ['plain', 'blanks']),
            ('paths', ['relative', 'absolute', 'plain-relative']),         # File Path cells: ./FCFiles/x.fcs, /abs/.../FCFiles/x.fcs, FCFiles/x.fcs
            ('mefnone', [False, True]),
            ('dirname', ['plain', 'braces', 'percent']),
            ('samplevolt', ['recorded', 'absent'])]                        # sample (and bead) files that do not record the optional detector voltage                   # the workbook's directory is called e.g. 'plate{A} run{0} {}' or '100%s done %d'                                    # a manufacturer value given as None (documented: that population is ignored)
    if tier == 'quick':
        cfgs = [dict(ninst=1, nbeads=1, nsamples=2, units='mixed', cont='int', plot=True, hist=True, outpath='default', nfl=2, cluster='all'),
                dict(ninst=1, nbeads=1, nsamples=1, units='all-mef', cont='int', plot=True, hist=False, outpath='explicit', nfl=3, cluster='all'),
                dict(ninst=2, nbeads=2, nsamples=3, units='mixed', cont='int', plot=False, hist=True, outpath='explicit', nfl=2, cluster='one'),
                dict(ninst=1, nbeads=0, nsamples=2, units='channel', cont='float', plot=False, hist=False, outpath='default', nfl=2, cluster='all'),
                dict(ninst=1, nbeads=1, nsamples=1, units='none', cont='int', plot=True, hist=True, outpath='default', nfl=2, cluster='one'),
                dict(ninst=1, nbeads=1, nsamples=1, units='mixed', cont='int', plot=True, hist=False, outpath='default', nfl=4, cluster='all'),
                dict(ninst=1, nbeads=1, nsamples=1, units='all-rfi', cont='int', plot=True, hist=True, outpath='default', nfl=11, cluster='one'),
                dict(ninst=1, nbeads=1, nsamples=2, units='mixed', cont='float', plot=False, hist=True, outpath='default', nfl=2, cluster='all', wbname='cells'),
                dict(ninst=1, nbeads=0, nsamples=1, units='channel', cont='int', plot=False, hist=False, outpath='default', nfl=2, cluster='all', wbname='samples.x'),
                dict(ninst=1, nbeads=0, nsamples=1, units='none', cont='int', plot=False, hist=True, outpath='default', nfl=2, cluster='all', wbname='xls'),
                dict(ninst=2, nbeads=2, nsamples=2, units='mixed', cont='int', plot=True, hist=True, outpath='default', nfl=2, cluster='all', ids='numbers'),
                dict(ninst=1, nbeads=1, nsamples=3, units='mixed', cont='int', plot=True, hist=True, outpath='relative', nfl=2, cluster='all'),
                dict(ninst=1, nbeads=1, nsamples=3, units='mixed', cont='int', plot=True, hist=True, outpath='default', nfl=2, cluster='all', ids='dotted'),
                dict(ninst=1, nbeads=1, nsamples=2, units='all-rfi', cont='float', plot=False, hist=True, outpath='explicit', nfl=2, cluster='all', ids='dotted'),
                dict(ninst=1, nbeads=1, nsamples=2, units='mixed', cont='int', plot=True, hist=True, outpath='default', nfl=2, cluster='all', paths='absolute'),
                dict(ninst=2, nbeads=2, nsamples=2, units='all-mef', cont='int', plot=False, hist=False, outpath='explicit', nfl=2, cluster='all', paths='plain-relative', mefnone=True),
                dict(ninst=1, nbeads=1, nsamples=1, units='all-mef', cont='int', plot=True, hist=True, outpath='default', nfl=3, cluster='one', mefnone=True),
                dict(ninst=1, nbeads=1, nsamples=2, units='mixed', cont='int', plot=True, hist=True, outpath='default', nfl=2, cluster='all', dirname='braces'),
                dict(ninst=1, nbeads=1, nsamples=2, units='mixed', cont='int', plot=True, hist=True, outpath='bare', nfl=2, cluster='all'),
                dict(ninst=1, nbeads=0, nsamples=1, units='all-rfi', cont='int', plot=False, hist=False, outpath='bare-explicit', nfl=2, cluster='all'),
                dict(ninst=1, nbeads=1, nsamples=2, units='all-mef', cont='int', plot=False, hist=True, outpath='default', nfl=2, cluster='all', samplevolt='absent'),
                dict(ninst=1, nbeads=1, nsamples=1, units='mixed', cont='int', plot=True, hist=False, outpath='explicit', nfl=2, cluster='all', dirname='percent'),
                dict(ninst=1, nbeads=1, nsamples=2, units='mixed', cont='int', plot=False, hist=True, outpath='default', nfl=3, cluster='all', hdr='blanks')]
    else:
        cfgs = list(explore.deviations(dims, 1)) + [c for c in explore.deviations(dims, 2) if c['_dev'] == 2 and c['plot'] and (c['nfl'] == 3 or c['hist'])]
    for cfg in cfgs:
        yield dict(kind='run', cfg=cfg)
    if tier == 'thorough':
        yield dict(kind='example')


def bounds(tier, seed):
    return {'roundtrip': 'all 6^4 2x2 tables + 3x3 latin arrangements', 'runs': '5 configurations' if tier == 'quick' else 'deviation ball (<=1, and <=2 with plots) + shipped example'}


def units_channel(header):
    """channel named by a '<channel> Units' header (the documented pattern: blanks around and between are allowed), else None"""
    import re
    m = re.match(r'^\s*(\S(?:.*\S)?)\s+Units\s*$', str(header))
    return m.group(1) if m else None


def same_cell(a, b):
    def nul(x):
        return x is None or (isinstance(x, float) and x != x) or x == ''
    if nul(a) or nul(b):
        return nul(a) and nul(b)
    if isinstance(a, (int, float, np.integer, np.floating)) and isinstance(b, (int, float, np.integer, np.floating)):
        return float(a) == float(b)
    return a == b and type(a) == type(b)


def roundtrip(res, sig, rows, cols, ids, d, one):
    """rows: list of lists of cell values"""
    import pandas as pd
    import FlowCal
    ui = FlowCal.excel_ui
    df = pd.DataFrame([[np.nan if v is None else v for v in r] for r in rows], columns=cols, index=pd.Index(ids, name='ID'), dtype=object)
    df2 = pd.DataFrame({'k': [1, 2]}, index=pd.Index(['x', 'y'], name='Key'))
    p = os.path.join(d, 'rt.xlsx')
    with warnings.catch_warnings():
        warnings.simplefilter('ignore')
        try:
            ui.write_workbook(p, [('First', df), ('Second', df2)])
            back = ui.read_table(p, 'First', index_col='ID')
            back2 = ui.read_table(p, 'Second', index_col='Key')
        except Exception as e:
            res.violation(sig + ':raises:%s' % type(e).__name__, 'round trip of table %r raised %s: %s' % (rows, type(e).__name__, e), one)
            return
    if list(back.columns) != list(cols) or list(back.index) != list(ids) or back.index.name != 'ID':
        res.violation(sig + ':labels', 'table %r came back with columns %r, identifiers %r (%r)' % (rows, list(back.columns), list(back.index), back.index.name), one)
        return
    for i, r in enumerate(rows):
        for j, v in enumerate(r):
            got = back.iloc[i, j]
            if not same_cell(v, got):
                res.violation(sig + ':cell', 'table %r: cell (%d,%d) written as %r was read back as %r' % (rows, i, j, v, got), one)
                return
    if list(back2['k']) != [1, 2] or list(back2.index) != ['x', 'y']:
        res.violation(sig + ':second-sheet', 'second sheet not preserved', one)
        return
    res.ok(sig, any(v is not None for r in rows for v in r))


def run_ids(res, d):
    import openpyxl
    import FlowCal
    ui = FlowCal.excel_ui
    p = os.path.join(d, 'ids.xlsx')
    wb = openpyxl.Workbook()
    ws = wb.active
    ws.title = 'T'
    ws.append(['ID', 'v', 'w'])
    for row in (['a', 1, 'x'], [None, 2, 'y'], ['b', 3, None], [None, None, None], ['c', 4.5, 'z']):
        ws.append(row)
    ws2 = wb.create_sheet('Dup')
    ws2.append(['ID', 'v'])
    for row in (['a', 1], ['b', 2], ['a', 3]):
        ws2.append(row)
    ws3 = wb.create_sheet('DupNull')
    ws3.append(['ID', 'v'])
    for row in (['a', 1], [None, 2], [None, 3]):
        ws3.append(row)
    wb.save(p)
    one = dict(kind='ids')
    # the identifier column given by position (documented: "column name or index") behaves like the name
    try:
        t0 = ui.read_table(p, 'T', index_col=0)
        if list(t0.index) != ['a', 'b', 'c'] or [float(x) for x in t0['v']] != [1.0, 3.0, 4.5]:
            res.violation('ids:empty-not-dropped:by-position', 'rows without identifier, identifier column given as position 0: read identifiers %r' % (list(t0.index),), one)
        else:
            res.ok('ids:empty-dropped', True)
    except Exception as e:
        res.violation('ids:by-position-raises', 'read_table(index_col=0) raised %s: %s' % (type(e).__name__, e), one)
    try:
        ui.read_table(p, 'Dup', index_col=0)
        res.violation('ids:duplicate-accepted:by-position', 'a sheet with duplicated identifiers was read without error (index_col=0)', one)
    except ValueError:
        res.ok('ids:duplicate-refused', True)
    try:
        t = ui.read_table(p, 'T', index_col='ID')
    except Exception as e:
        t = None
        res.violation('ids:empty-rows-refused', 'a sheet with two rows lacking an identifier was refused: %s: %s' % (type(e).__name__, e), one)
    if t is None:
        pass
    elif list(t.index) != ['a', 'b', 'c'] or [float(x) for x in t['v']] != [1.0, 3.0, 4.5]:
        res.violation('ids:empty-not-dropped', 'rows without identifier: read identifiers %r values %r' % (list(t.index), list(t['v'])), one)
    else:
        res.ok('ids:empty-dropped', True)
    try:
        ui.read_table(p, 'Dup', index_col='ID')
        res.violation('ids:duplicate-accepted', 'a sheet with duplicated identifiers was read without error', one)
    except ValueError:
        res.ok('ids:duplicate-refused', True)
    try:
        t3 = ui.read_table(p, 'DupNull', index_col='ID')
    except Exception as e:
        t3 = None
        res.violation('ids:empty-rows-refused', 'a sheet with two rows lacking an identifier was refused: %s: %s' % (type(e).__name__, e), one)
    if t3 is None:
        pass
    elif list(t3.index) != ['a']:
        res.violation('ids:empty-duplicates', 'several rows without identifier: read %r' % list(t3.index), one)
    else:
        res.ok('ids:empty-dropped', True)
    for bad in (None, ['T', 'Dup']):
        try:
            ui.read_table(p, bad, index_col='ID')
            res.violation('ids:sheetname', 'read_table(sheetname=%r) did not raise' % (bad,), one)
        except TypeError:
            res.ok('ids:sheetname-refused', True)
    res.sample({'identifier_cases': ['empty dropped', 'duplicates refused', 'several empty dropped']})


def build(cfg, d):
    from . import c10
    insts = [wg.instrument(i, nfl=cfg['nfl']) for i in range(cfg['ninst'])]
    beads, samples = [], []
    # row identifiers as a user may type them: text, or plain numbers (which Excel stores as numbers)
    ids = cfg.get('ids', 'text')
    bead_id = (lambda k: 'B%03d' % (k + 1)) if ids == 'text' else (lambda k: k + 1)
    # text identifiers whose sheet order is not their lexicographic order (S9, S10, S11 ...)
    sample_id = (lambda k: 'S%d' % (k + 9)) if ids == 'text' else (lambda k: 101 + k)
    if ids == 'dotted':
        # identifiers with periods in them (replicate numbers, dates, file-like names): a figure is still <identifier>.png
        bead_id = lambda k: 'beads.lot%d' % (k + 1)
        sample_id = lambda k: ['wt.rep2', '2024.01.15_A', 'strain 3.b.pdf', 'S1.'][k % 4]
    if ids == 'numbers':
        for i, inst in enumerate(insts):
            inst['id'] = 7 + i
    for k in range(cfg['nbeads']):
        inst = insts[k % len(insts)]
        lay, truth = wg.bead_layout(inst, stream=60 + k, container=cfg['cont'])
        wg.write_fcs(os.path.join(d, 'FCFiles', 'beads%d.fcs' % k), lay)
        cl = ', '.join(inst['fl']) if cfg['cluster'] == 'all' else inst['fl'][0]
        fpath = {'relative': './FCFiles/%s', 'absolute': os.path.join(os.path.abspath(d), 'FCFiles', '%s'), 'plain-relative': 'FCFiles/%s'}[cfg.get('paths', 'relative')]
        beads.append(dict(id=bead_id(k), inst=inst['id'], file=fpath % ('beads%d.fcs' % k), gate_fraction=0.3, cluster=cl,
                          mef={ch: wg.mef_string(truth, ci, unknown=((0, 4 - ci) if cfg.get('mefnone') else ())) for ci, ch in enumerate(inst['fl'][:2])},
                          inst_obj=inst, lot='AJ0%d' % k))
    for k in range(cfg['nsamples']):
        inst = insts[k % len(insts)]
        wg.write_fcs(os.path.join(d, 'FCFiles', 'cells%d.fcs' % k), wg.cell_layout(inst, stream=70 + k, container=cfg['cont'], n=820 + 90 * k,
                                                                                   no_voltage=cfg.get('samplevolt') == 'absent'))
        mine = [b for b in beads if b['inst'] == inst['id']]
        u = {'mixed': [['MEF', 'RFI'], ['a.u.', None], ['Channel', 'mef']][k % 3], 'all-mef': ['MEF', 'MEF'], 'channel': ['Channel', 'channel'], 'none': [None, None],
             'all-rfi': ['RFI', 'a.u.']}[cfg['units']]
        if not mine:
            u = [x if (x or '').lower() != 'mef' else 'RFI' for x in u]
        units = {inst['fl'][0]: u[0], inst['fl'][1]: u[1]}
        if cfg['units'] == 'all-rfi':
            for ch in inst['fl'][2:]:
                units[ch] = 'RFI'              # every fluorescence channel of the instrument is reported
        fpath = {'relative': './FCFiles/%s', 'absolute': os.path.join(os.path.abspath(d), 'FCFiles', '%s'), 'plain-relative': 'FCFiles/%s'}[cfg.get('paths', 'relative')]
        samples.append(dict(id=sample_id(k), inst=inst['id'], beads=mine[0]['id'] if mine else None, file=fpath % ('cells%d.fcs' % k),
                            gate_fraction=0.85, units=units, inst_obj=inst))
    wb = os.path.join(d, cfg.get('wbname', 'experiment') + '.xlsx')
    mcols, ucols = [], []
    for b in beads:
        for ch in b['mef']:
            if ch not in mcols:
                mcols.append(ch)
    for s in samples:
        for ch in s['units']:
            if ch not in ucols:
                ucols.append(ch)
    wg.write_workbook(wb, insts, beads, samples, mef_channels_cols=mcols, unit_channels_cols=ucols, header_style=cfg.get('hdr', 'plain'))
    return wb, insts, beads, samples, mcols, ucols


def check_output(res, sig, what, inp, outp, d, plot, hist, one, bead_ids_channels, sample_ids, beads_cluster):
    """inp/outp: workbook paths"""
    import pandas as pd
    import FlowCal
    try:
        out = pd.read_excel(outp, sheet_name=None, engine='openpyxl')
    except Exception as e:
        res.violation(sig + ':output-unreadable', '%s: output workbook cannot be read: %s' % (what, e), one)
        return False
    want = ['Instruments', 'Beads', 'Samples'] + (['Histograms'] if hist else []) + ['About Analysis']
    if list(out.keys()) != want:
        res.violation(sig + ':sheets', '%s: output sheets are %r, expected %r' % (what, list(out.keys()), want), one)
        return False
    for sh in ('Instruments', 'Beads', 'Samples'):
        ti = pd.read_excel(inp, sheet_name=sh, engine='openpyxl')
        ti = ti[pd.notnull(ti['ID'])]
        to = out[sh]
        incols = list(ti.columns)
        if list(to.columns[:len(incols)]) != incols:
            res.violation(sig + ':columns:' + sh, '%s: sheet %s starts with columns %r, the input has %r' % (what, sh, list(to.columns[:len(incols)]), incols), one)
            return False
        if list(to['ID']) != list(ti['ID']):
            res.violation(sig + ':rows:' + sh, '%s: sheet %s has rows %r, the input has %r' % (what, sh, list(to['ID']), list(ti['ID'])), one)
            return False
        for c in incols:
            for a, b, rid in zip(ti[c].tolist(), to[c].tolist(), ti['ID'].tolist()):
                if not same_cell(a, b):
                    res.violation(sig + ':cell:' + sh, '%s: sheet %s row %s column %r: input %r, output %r' % (what, sh, rid, c, a, b), one)
                    return False
    bcols = list(out['Beads'].columns)
    scols = list(out['Samples'].columns)
    need_b = ['Analysis Notes', 'Number of Events', 'Acquisition Time (s)']
    for ch in sorted(set(ch for _, chs in bead_ids_channels for ch in chs)):
        need_b += ['%s Detector Volt.' % ch, '%s Amp. Type' % ch, '%s Beads Model' % ch, '%s Beads Params. Names' % ch, '%s Beads Params. Values' % ch]
    need_s = ['Analysis Notes', 'Number of Events', 'Acquisition Time (s)']
    for c in scols:
        if units_channel(c):
            ch = units_channel(c)
            need_s += ['%s %s' % (ch, x) for x in ('Detector Volt.', 'Amp. Type', 'Mean', 'Geom. Mean', 'Median', 'Mode', 'Std', 'CV', 'Geom. Std', 'Geom. CV', 'IQR', 'RCV')]
    if len(out['Beads']) or bead_ids_channels:
        miss = [c for c in need_b if c not in bcols]
        if miss:
            res.violation(sig + ':added-columns:Beads', '%s: Beads sheet lacks the documented columns %r' % (what, miss), one)
            return False
    miss = [c for c in need_s if c not in scols]
    if miss and len(out['Samples']):
        res.violation(sig + ':added-columns:Samples', '%s: Samples sheet lacks the documented columns %r' % (what, miss), one)
        return False
    for sh, ids in (('Beads', [b for b, _ in bead_ids_channels]), ('Samples', sample_ids)):
        t = out[sh]
        for rid in ids:
            row = t[t['ID'] == rid]
            note = row['Analysis Notes'].iloc[0] if len(row) else 'missing'
            if isinstance(note, str) and note.startswith('ERROR'):
                res.violation(sig + ':row-error', '%s: row %s of a well-formed workbook has note %r' % (what, rid, note), one)
                return False
            if not (row['Number of Events'].iloc[0] > 0):
                res.violation(sig + ':row-empty', '%s: row %s has no events' % (what, rid), one)
                return False
    about = out['About Analysis']
    ab = dict(zip(about.iloc[:, 0].tolist(), about.iloc[:, 1].tolist()))
    if ab.get('FlowCal version') != FlowCal.__version__ or 'Input file path' not in ab:
        res.violation(sig + ':about', '%s: About sheet is %r' % (what, ab), one)
        return False
    if hist:
        h = out['Histograms']
        units_cells = sum(1 for c in scols if units_channel(c) for v in out['Samples'][c].tolist() if isinstance(v, str))
        if len(h) != 2 * units_cells:
            res.violation(sig + ':histograms', '%s: Histograms sheet has %d rows for %d (sample, channel) pairs with units' % (what, len(h), units_cells), one)
            return False
        # rows in the order of the Samples sheet, channels in the order of the Units columns, centres before counts
        want_rows = []
        for _, srow in out['Samples'].iterrows():
            for c_ in scols:
                if units_channel(c_) and isinstance(srow[c_], str):
                    want_rows += [(srow['ID'], units_channel(c_), 'Bin Centers'), (srow['ID'], units_channel(c_), 'Counts')]
        hc = list(h.columns[:3])
        got_rows = []
        for _, hr in h.iterrows():
            # every row carries its own identifiers (sample, channel, kind) in its first three cells -- a cell left empty because the row
            # above holds the same value is not an identifier
            sid_, ch_ = hr[hc[0]], hr[hc[1]]
            got_rows.append((None if sid_ != sid_ else sid_, None if ch_ != ch_ else ch_, str(hr[hc[2]]).split(' (')[0]))
        if got_rows != want_rows:
            k_ = next((i for i, (a_, b_) in enumerate(zip(got_rows, want_rows)) if a_ != b_), min(len(got_rows), len(want_rows)))
            res.violation(sig + ':histogram-order', '%s: row %d of the Histograms sheet is %r, the Samples sheet order asks for %r' % (
                what, k_, got_rows[k_] if k_ < len(got_rows) else None, want_rows[k_] if k_ < len(want_rows) else None), one)
            return False
    if plot:
        base = os.path.dirname(inp)
        exp = []
        for bid, chs in bead_ids_channels:
            exp.append(os.path.join(base, 'plot_beads', 'density_hist_%s.png' % bid))
            if chs:
                exp.append(os.path.join(base, 'plot_beads', 'clustering_%s.png' % bid))
                for ch in chs:
                    exp.append(os.path.join(base, 'plot_beads', 'populations_%s_%s.png' % (ch, bid)))
                    exp.append(os.path.join(base, 'plot_beads', 'std_crv_%s_%s.png' % (ch, bid)))
        for sid in sample_ids:
            exp.append(os.path.join(base, 'plot_samples', '%s.png' % sid))
        for f in exp:
            okf = os.path.isfile(f) and os.path.getsize(f) > 1000 and open(f, 'rb').read(8) == PNG
            if not okf:
                res.violation(sig + ':figure-missing', '%s: documented figure %s was not written (or is not a PNG)' % (what, os.path.relpath(f, base)), one)
                return False
        res.counters['figures_checked'] += len(exp)
    return True


_N = [0]


def run_case(c):
    import matplotlib
    matplotlib.use('Agg')
    import matplotlib.pyplot as plt
    import FlowCal
    ui = FlowCal.excel_ui
    res = Result()
    _N[0] += 1
    d = os.path.join(scratch(), 'c15_%d' % _N[0])
    os.makedirs(d, exist_ok=True)
    cwd_at_start = os.getcwd()
    try:
        k = c['kind']
        if k == 'roundtrip2x2':
            tables = list(itertools.product(range(len(CELLS)), repeat=4))
            for t in tables[c['start']:c['stop']]:
                rows = [[CELLS[t[0]], CELLS[t[1]]], [CELLS[t[2]], CELLS[t[3]]]]
                roundtrip(res, 'roundtrip', rows, ['c1', 'c 2'], ['r1', 'r2'], d, dict(kind='roundtrip-one', rows=[[t[0], t[1]], [t[2], t[3]]]))
            res.sample({'tables': '2x2 over %r, indices %d..%d' % (CELLS, c['start'], c['stop'])})
        elif k == 'roundtrip-one':
            rows = [[CELLS[i] for i in r] for r in c['rows']]
            roundtrip(res, 'roundtrip', rows, ['c%d' % (j + 1) for j in range(len(rows[0]))], ['r%d' % (i + 1) for i in range(len(rows))], d, c)
        elif k == 'roundtrip3x3':
            n = len(CELLS)
            for a in range(n):
                for b in range(n):
                    rows = [[CELLS[(a + i + j * b) % n] for j in range(3)] for i in range(3)]
                    idx = [[(a + i + j * b) % n for j in range(3)] for i in range(3)]
                    roundtrip(res, 'roundtrip3', rows, ['c1', 'c2', 'c3'], [10, 'r2', 3.5] if (a + b) % 2 else ['r1', 'r2', 'r3'], d,
                              dict(kind='roundtrip-one', rows=idx))
            res.sample({'tables': '3x3 latin arrangements, string and numeric identifiers'})
        elif k == 'ids':
            run_ids(res, d)
        elif k == 'run-sequence':
            for i, cfg in enumerate(c['cfgs']):
                sub = run_case(dict(kind='run', cfg=cfg))
                for v in sub.violations:
                    res.violations.append({'sig': 'sequence:' + v['sig'], 'msg': 'analysis %d of %d in one process (plots %s): %s' % (
                        i + 1, len(c['cfgs']), [x['plot'] for x in c['cfgs']], v['msg']), 'case': dict(c)})
                res.n += sub.n
                res.nontrivial += sub.nontrivial
                res.classes.update(sub.classes)
                for ck, cv in sub.counters.items():
                    res.counters[ck] += cv
            res.sample({'sequence of analyses': [x['plot'] for x in c['cfgs']]})
        elif k == 'run':
            cfg = c['cfg']
            if cfg.get('dirname', 'plain') != 'plain':
                d = os.path.join(d, {'braces': 'plate{A} run{0} {}', 'percent': '100%s done %d %'}[cfg['dirname']])
                os.makedirs(d, exist_ok=True)
            with warnings.catch_warnings():
                warnings.simplefilter('ignore')
                wb, insts, beads, samples, mcols, ucols = build(cfg, d)
                outp = os.path.join(d, 'results', 'out.xlsx') if cfg['outpath'] == 'explicit' else os.path.join(d, cfg.get('wbname', 'experiment') + '_output.xlsx')
                if cfg['outpath'] == 'explicit':
                    os.makedirs(os.path.dirname(outp), exist_ok=True)
                run_in, run_out, cwd0 = wb, (outp if cfg['outpath'] == 'explicit' else None), None
                if cfg['outpath'] in ('bare', 'bare-explicit'):
                    # started from inside the workbook's folder: the workbook (and the output) addressed by bare file names
                    cwd0 = os.getcwd()
                    os.chdir(d)
                    run_in = os.path.basename(wb)
                    if cfg['outpath'] == 'bare-explicit':
                        run_out = 'results.xlsx'
                        outp = os.path.join(d, 'results.xlsx')
                if cfg['outpath'] == 'relative':
                    # both paths relative to the working directory, the workbook in a sub-directory of it, the output somewhere else
                    cwd0 = os.getcwd()
                    os.chdir(os.path.dirname(d))
                    run_in = os.path.join(os.path.basename(d), os.path.basename(wb))
                    run_out = os.path.join('out_of_' + os.path.basename(d), 'out.xlsx')
                    os.makedirs(os.path.dirname(run_out), exist_ok=True)
                    outp = os.path.abspath(run_out)
                what = 'excel_ui.run(%s)' % ', '.join('%s=%r' % kv for kv in sorted(cfg.items()) if kv[0] != '_dev')
                np.random.seed(3)
                try:
                    ui.run(input_path=run_in, output_path=run_out, verbose=False, plot=cfg['plot'], hist_sheet=cfg['hist'])
                except Exception as e:
                    import traceback
                    tb = traceback.extract_tb(e.__traceback__)[-1]
                    res.violation('run:raises:%s' % type(e).__name__, '%s raised %s: %s (at %s:%d)' % (what, type(e).__name__, e, os.path.basename(tb.filename), tb.lineno), dict(c))
                    return res
                finally:
                    plt.close('all')
                bic = [(b['id'], [ch for ch in b['inst_obj']['fl'] if b['mef'].get(ch)]) for b in beads]
                if not os.path.isfile(outp):
                    res.violation('run:output-missing', '%s: the output workbook %s was not written (files in the directory: %s)' % (
                        what, os.path.relpath(outp, d), sorted(x for x in os.listdir(d) if x.endswith('.xlsx'))), dict(c))
                    return res
                if check_output(res, 'run', what, wb, outp, d, cfg['plot'], cfg['hist'], dict(c), bic, [s['id'] for s in samples], None):
                    res.ok('run:plot=%s:hist=%s' % (cfg['plot'], cfg['hist']), bool(beads or samples))
                    # the same workbook analysed a second time (output and figure directories exist now); the working
                    # directory of the process is not the workbook's directory
                    for f_ in [outp] + [os.path.join(d, sub_, x) for sub_ in ('plot_beads', 'plot_samples') if os.path.isdir(os.path.join(d, sub_))
                                        for x in os.listdir(os.path.join(d, sub_))]:
                        os.remove(f_)
                    try:
                        np.random.seed(3)
                        ui.run(input_path=run_in, output_path=run_out, verbose=False, plot=cfg['plot'], hist_sheet=cfg['hist'])
                    except Exception as e:
                        res.violation('rerun:raises:%s' % type(e).__name__, '%s raised %s: %s when the same workbook was analysed a second time' % (what, type(e).__name__, e), dict(c))
                        return res
                    finally:
                        plt.close('all')
                    if check_output(res, 'rerun', what + ' [second run]', wb, outp, d, cfg['plot'], cfg['hist'], dict(c), bic, [s['id'] for s in samples], None):
                        res.ok('rerun:plot=%s:hist=%s' % (cfg['plot'], cfg['hist']), True)
            res.sample({'configuration': {k_: v for k_, v in cfg.items()}})
        elif k == 'example':
            src = os.path.join(os.environ.get('FCVERIF_REPO', '/repo'), 'examples')
            shutil.copytree(os.path.join(src, 'FCFiles'), os.path.join(d, 'FCFiles'))
            shutil.copy(os.path.join(src, 'experiment.xlsx'), os.path.join(d, 'experiment.xlsx'))
            import pandas as pd
            wb = os.path.join(d, 'experiment.xlsx')
            with warnings.catch_warnings():
                warnings.simplefilter('ignore')
                try:
                    np.random.seed(3)
                    ui.run(input_path=wb, verbose=False, plot=True, hist_sheet=True)
                except Exception as e:
                    res.violation('example:raises:%s' % type(e).__name__, 'excel_ui.run on the shipped example raised %s: %s' % (type(e).__name__, e), dict(c))
                    return res
                finally:
                    plt.close('all')
                bt = pd.read_excel(wb, sheet_name='Beads')
                stt = pd.read_excel(wb, sheet_name='Samples')
                bic = [(bid, ['FL1']) for bid in bt['ID'].tolist()]
                if check_output(res, 'example', 'excel_ui.run(shipped example)', wb, os.path.join(d, 'experiment_output.xlsx'), d, True, True, dict(c), bic,
                                stt['ID'].tolist(), None):
                    res.ok('example', True)
            res.sample({'workbook': 'examples/experiment.xlsx', 'plots': True, 'hist_sheet': True})
    finally:
        os.chdir(cwd_at_start)
        shutil.rmtree(d, ignore_errors=True)
        shutil.rmtree(os.path.join(os.path.dirname(d), 'out_of_' + os.path.basename(d)), ignore_errors=True)
    return res
