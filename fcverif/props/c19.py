"""C19 -- histogram bin edges are increasing, complete and centred on channel values (E1)."""
import itertools
import math
import os
import warnings

import numpy as np

from .. import fcsgen, logicleref
from ..runner import Result, scratch

ID = 'C19'
LEVEL = 'exploration'
TECHNIQUE = ('exhaustive enumeration of resolution x channel state (raw, RFI of linear/log amplifiers, MEF) x channel form x bin '
             'count x scale x logicle overrides; for every answer ALL representable channel values of the detector are pushed '
             'through the same conversion and located in the returned edges')
RULE = ('one evaluation = one hist_bins call with all clauses checked; every combination of the stated menus exactly once; '
        'non-trivial = more than one bin; distinct by construction')
ASSUMPTIONS = ['in log scale a non-positive lower limit is replaced as documented (by one, or less when the range spans fewer than five decades): '
               'values below one are outside the documented coverage',
               'centre tolerance relative 1e-9 of the bin width']
CHUNK = 2

RES = [256, 1000, 1024, 4096, 65536, 262144]
LOWLOG = {'rfi-log4-0.01': (4.0, 0.01), 'rfi-log3-0.5': (3.0, 0.5), 'rfi-log5-0.1': (5.0, 0.1)}     # log amplifiers whose lowest value lies between 0 and 1
STATES = ['raw', 'rfi-lin', 'rfi-log4', 'rfi-log2.5-0', 'mef', 'float-neg', 'shifted'] + sorted(LOWLOG) + ['mef-low', 'float-neg-nan', 'mef-partial', 'sliced-tail', 'sliced-step']      # 'shifted': range starting below zero (linear scale only)


def make(res3, state):
    """three channels with the same state but different resolutions; returns sample and the per-channel value function"""
    import FlowCal
    if state in ('float-neg', 'float-neg-nan'):
        # floating-point sample with negative events (compensated data): only logicle scale looks at the events
        ev = [[0.0, 0.0, 0.0], [1.0, 1.0, 1.0], [float(r - 1) for r in res3], [float(r // 2) for r in res3],
              [-0.01 * res3[0], -0.2 * res3[1], -3.0], [-1.0, -0.5, -0.25]]
        if state == 'float-neg-nan':
            # ... and events without a value (NaN) in the same channels: the edges are still n+1 finite increasing values
            ev = [[float('nan'), 5.0, float('nan')]] + ev + [[3.0, float('nan'), 2.0]]
        lay = dict(datatype='D', bits=[64] * 3, ranges=list(res3), byteord='4,3,2,1',
                   events=[[fcsgen.float_bits(x, 'D') for x in r] for r in ev])
        buf, _ = fcsgen.build(lay)
        p = os.path.join(scratch(), 'c19f.fcs')
        with open(p, 'wb') as f:
            f.write(buf)
        d = FlowCal.io.FCSData(p)
        d._c19_min = [min(r[j] for r in ev if r[j] == r[j]) for j in range(3)]
        d._c19_nan = state == 'float-neg-nan'
        return d, [lambda x: x] * 3
    if state in ('sliced-tail', 'sliced-step'):
        # a sub-sample taken with a slice of the channels (not starting at the first channel / with a step) out of a file whose other
        # channels have another resolution: bins follow the resolution of the channels that are left
        other = 64 if 64 not in res3 else 128
        allres = [other] + list(res3) if state == 'sliced-tail' else [res3[0], other, res3[1], other, res3[2]]
        ev = [[0] * len(allres), [1] * len(allres), [r - 1 for r in allres], [r // 2 for r in allres]]
        lay = dict(datatype='I', bits=[16 if r <= 65536 else 32 for r in allres], ranges=allres, pne=['0,0'] * len(allres), events=ev, byteord='4,3,2,1',
                   names=(['X0', 'CH1', 'CH2', 'CH3'] if state == 'sliced-tail' else ['CH1', 'X1', 'CH2', 'X2', 'CH3']))
        buf, _ = fcsgen.build(lay)
        p = os.path.join(scratch(), 'c19s.fcs')
        with open(p, 'wb') as f:
            f.write(buf)
        d = FlowCal.io.FCSData(p)
        d = d[:, 1:] if state == 'sliced-tail' else d[:, ::2]
        return d, [lambda x: x] * 3
    pne = {'raw': '0,0', 'rfi-lin': '0,0', 'rfi-log4': '4,1', 'rfi-log2.5-0': '2.5,0', 'mef': '4,1', 'shifted': '0,0', 'mef-low': '4,1', 'mef-partial': '4,1'}.get(state)
    if state in LOWLOG:
        pne = '%r,%r' % LOWLOG[state]
    events = [[0, 0, 0], [1, 1, 1]] + [[r - 1 for r in res3]] + [[r // 2 for r in res3]]
    extra = [('$P%dG' % (j + 1), g) for j, g in enumerate(['2.0', '0.5', '4.0'])] if state == 'rfi-lin' else []
    bits = [16 if r <= 65536 else 32 for r in res3]
    lay = dict(datatype='I', bits=bits, ranges=list(res3), pne=[pne] * 3, events=events, byteord='4,3,2,1', extra=extra)
    buf, _ = fcsgen.build(lay)
    p = os.path.join(scratch(), 'c19.fcs')
    with open(p, 'wb') as f:
        f.write(buf)
    d = FlowCal.io.FCSData(p)
    fns = [lambda x: x] * 3
    if state != 'raw':
        d = FlowCal.transform.to_rfi(d)
        if state == 'rfi-lin':
            fns = [lambda x, g=g: x / g for g in (2.0, 0.5, 4.0)]
        elif state in ('rfi-log4', 'mef', 'mef-low', 'mef-partial'):
            fns = [lambda x, r=r: 1.0 * 10 ** (4.0 / r * x) for r in res3]
        elif state in LOWLOG:
            fns = [lambda x, r=r, a=LOWLOG[state]: a[1] * 10 ** (a[0] / r * x) for r in res3]
        else:
            fns = [lambda x, r=r: 1.0 * 10 ** (2.5 / r * x) for r in res3]
    if state == 'shifted':
        # background subtraction: every value and both range limits move down by 100.25
        d = FlowCal.transform.transform(d, [0, 1, 2], lambda x: x - 100.25)
        fns = [lambda x: x - 100.25] * 3
    if state == 'mef-partial':
        # curves are known for all three channels, only the first one is converted: the others still hold (and are binned as) RFI
        scs = [lambda x, m=m, b=b: np.sign(x) * np.exp(b) * (np.abs(x) ** m) for m, b in ((1.05, 2.0), (0.95, 3.5), (1.2, 0.5))]
        d = FlowCal.transform.to_mef(d, [0], scs, [0, 1, 2])
        f0 = list(fns)
        fns = [lambda x, f=f0[0], sc=scs[0]: sc(f(x)), f0[1], f0[2]]
    if state in ('mef', 'mef-low'):
        # ('mef-low': standard curves that put the lowest channel value between 0 and 1 MEF)
        scs = [lambda x, m=m, b=b: np.sign(x) * np.exp(b) * (np.abs(x) ** m) for m, b in (((1.05, 2.0), (0.95, 3.5), (1.2, 0.5)) if state == 'mef' else
                                                                                      ((1.05, -1.4), (0.95, -0.7), (1.2, -3.0)))]
        d = FlowCal.transform.to_mef(d, [0, 1, 2], scs, [0, 1, 2])
        f0 = list(fns)
        fns = [lambda x, f=f, sc=sc: sc(f(x)) for f, sc in zip(f0, scs)]
    return d, fns


def cases(tier, seed):
    trip = [[256, 1000, 1024], [4096, 65536, 262144]]
    if tier == 'thorough':
        trip += [[1024, 4096, 256], [1000, 262144, 65536], [512, 100, 2048]]
    for rs in trip:
        for st in STATES:
            for scale in ('linear', 'log', 'logicle'):
                if st == 'shifted' and scale != 'linear':
                    continue
                yield dict(res=rs, state=st, scale=scale, tier=tier)
                yield dict(res=rs, state=st, scale=scale, tier=tier, history='after-log')
                yield dict(res=rs, state=st, scale=scale, tier=tier, history='empty')
                if st in ('float-neg', 'float-neg-nan') and scale == 'logicle':
                    yield dict(res=rs, state=st, scale=scale, tier=tier, history='edited')
            if st != 'shifted':
                yield dict(res=rs, state=st, scale='lists', tier=tier)


def bounds(tier, seed):
    return {'resolutions': RES, 'states': STATES, 'nbins': [1, 2, None, 7, 100], 'scales': ['linear', 'log', 'logicle', 'per-channel lists', 'unknown']}


NBINS = [None, 1, 2, 7, 100, 'r+1', '2r']        # the last two: more bins than the channel has values


def check_edges(res, sig, what, e, n, lim, vals, scale, default_n, fn_log_centres, one, M=None, tparams=None):
    e = np.asarray(e, dtype=float)
    if e.ndim != 1 or e.shape[0] != n + 1:
        res.violation(sig + ':count', '%s returned %s edges, expected n+1 = %d' % (what, e.shape, n + 1), one)
        return False
    if not np.all(np.isfinite(e)) or np.any(np.diff(e) <= 0):
        res.violation(sig + ':not-increasing', '%s: edges are not finite and strictly increasing (first %s)' % (what, e[:4].tolist()), one)
        return False
    lo, hi = lim
    if scale == 'log':
        if e[0] <= 0:
            res.violation(sig + ':log-nonpositive', '%s: first log edge %r is not positive' % (what, float(e[0])), one)
            return False
        if lo <= 0:
            lo = 1.0          # documented replacement; the implementation may go lower
        vals = vals[vals >= lo]
    if e[0] > lo * (1 + 1e-12) + 1e-300 and e[0] > lo or e[-1] < hi:
        res.violation(sig + ':coverage', '%s: edges [%r, %r] do not cover the range [%r, %r]' % (what, float(e[0]), float(e[-1]), lo, hi), one)
        return False
    out = vals[(vals < e[0]) | (vals > e[-1])]
    if out.size:
        res.violation(sig + ':value-outside', '%s: representable value %r falls in no bin (edges from %r to %r)' % (what, float(out[0]), float(e[0]), float(e[-1])), one)
        return False
    return True


def run_case(c):
    import FlowCal
    res = Result()
    rs, st, scale = c['res'], c['state'], c['scale']
    with warnings.catch_warnings():
        warnings.simplefilter('ignore')
        d, fns = make(rs, st)
        names = list(d.channels)
        allvals = []
        for j, r in enumerate(rs):
            x = np.arange(r, dtype=np.float64)
            allvals.append(np.asarray(fns[j](x), dtype=float))
        lims = [d.range(j) for j in range(3)]
        one = dict(c)
        if scale == 'lists':
            # per-channel lists of scale and nbins, channel forms, and the unknown scale
            combos = [(['linear', 'log', 'logicle'], [None, 7, 100]), (['log', 'log', 'linear'], [2, None, 1]),
                      (['logicle', 'linear', 'log'], [100, 2, None])]
            for chans in ([0, 1, 2], ['CH3', 'CH1', 'CH2'], [2, 'CH1'], None, (0, 1, 2), ('CH2', 0), [-1, -3], (2,), ['CH2']):
                idx = [0, 1, 2] if chans is None else [ch % 3 if isinstance(ch, int) else names.index(ch) for ch in chans]
                for scl, nb in combos:
                    scl_, nb_ = scl[:len(idx)], nb[:len(idx)]
                    what = 'hist_bins(%s %r, channels=%r, nbins=%r, scale=%r)' % (st, rs, chans, nb_, scl_)
                    try:
                        got = d.hist_bins(chans, nb_, scl_)
                    except Exception as e:
                        res.violation('lists:raises:%s' % type(e).__name__, '%s raised %s: %s' % (what, type(e).__name__, e), one)
                        continue
                    if not isinstance(got, list) or len(got) != len(idx):
                        res.violation('lists:form', '%s did not return one array per channel' % what, one)
                        continue
                    ok = True
                    for k, j in enumerate(idx):
                        try:
                            single = d.hist_bins(j, nb_[k], scl_[k])
                            byname = d.hist_bins(names[j], nb_[k], scl_[k])
                        except Exception as e:
                            res.violation('lists:single-raises:%s' % type(e).__name__, 'hist_bins(%s, channel %d, nbins=%r, scale=%r) raised %s: %s' % (st, j, nb_[k], scl_[k], type(e).__name__, e), one)
                            ok = False
                            break
                        if not (np.array_equal(np.asarray(got[k]), np.asarray(single)) and np.array_equal(np.asarray(single), np.asarray(byname))):
                            res.violation('lists:per-channel', '%s: element %d differs from the single-channel answer for channel %d' % (what, k, j), one)
                            ok = False
                            break
                    if ok:
                        res.ok('lists', True)
                # scalar scale / nbins broadcast over a channel list
                for sc1 in ('linear', 'log', 'logicle'):
                    for nb1 in (None, 7):
                        try:
                            got = d.hist_bins(chans, nb1, sc1)
                            ok = isinstance(got, list) and len(got) == len(idx) and \
                                all(np.array_equal(np.asarray(got[k]), np.asarray(d.hist_bins(j, nb1, sc1))) for k, j in enumerate(idx))
                        except Exception as e:
                            res.violation('lists:broadcast-raises:%s' % type(e).__name__, 'hist_bins(%s, channels=%r, nbins=%r, scale=%r) raised %s: %s' % (st, chans, nb1, sc1, type(e).__name__, e), one)
                            continue
                        if not ok:
                            res.violation('lists:broadcast', 'hist_bins(%s, channels=%r, nbins=%r, scale=%r) differs from the per-channel answers' % (st, chans, nb1, sc1), one)
                        else:
                            res.ok('lists:broadcast', True)
            # a channel mentioned twice in one request, each time with its own bin count / scale; the caller's lists come back unchanged and
            # can be reused on another channel group (None entries still mean "the channel's own resolution")
            for chans, nbl, scl in ((['CH1', 'CH1'], [None, 16], 'linear'), ([0, 'CH1', 0], [7, None, 100], ['linear', 'log', 'logicle']),
                                    ([2, 2], 32, ['linear', 'log']), (['CH2', 1], [None, None], ['logicle', 'linear'])):
                idx = [ch if isinstance(ch, int) else names.index(ch) for ch in chans]
                nb_arg = list(nbl) if isinstance(nbl, list) else nbl
                sc_arg = list(scl) if isinstance(scl, list) else scl
                what = 'hist_bins(%s %r, channels=%r, nbins=%r, scale=%r)' % (st, rs, chans, nbl, scl)
                try:
                    got = d.hist_bins(list(chans), nb_arg, sc_arg)
                    per = [d.hist_bins(j, nbl[k] if isinstance(nbl, list) else nbl, scl[k] if isinstance(scl, list) else scl) for k, j in enumerate(idx)]
                except Exception as e:
                    res.violation('lists:repeated-raises:%s' % type(e).__name__, '%s raised %s: %s' % (what, type(e).__name__, e), one)
                    continue
                if not (isinstance(got, list) and len(got) == len(idx) and all(np.array_equal(np.asarray(g), np.asarray(p_)) for g, p_ in zip(got, per))):
                    res.violation('lists:repeated-channel', '%s differs from the per-channel answers' % what, one)
                    continue
                if (isinstance(nbl, list) and nb_arg != nbl) or (isinstance(scl, list) and sc_arg != scl):
                    res.violation('lists:argument-changed', '%s changed the caller\'s nbins / scale list to %r / %r' % (what, nb_arg, sc_arg), one)
                    continue
                if isinstance(nbl, list):
                    # the same list object again, on the other channels
                    other = [(j + 1) % 3 for j in idx]
                    try:
                        got2 = d.hist_bins(other, nb_arg, sc_arg)
                        per2 = [d.hist_bins(j, nbl[k], scl[k] if isinstance(scl, list) else scl) for k, j in enumerate(other)]
                    except Exception as e:
                        res.violation('lists:reused-raises:%s' % type(e).__name__, '%s, then the same nbins list on channels %r raised %s: %s' % (what, other, type(e).__name__, e), one)
                        continue
                    if not all(np.array_equal(np.asarray(g), np.asarray(p_)) for g, p_ in zip(got2, per2)):
                        res.violation('lists:reused-argument', '%s, then the same nbins list on channels %r: differs from the per-channel answers' % (what, other), one)
                        continue
                res.ok('lists:repeated', True)
            for bad in ('lin', 'LOG', '', 'logit', None):
                try:
                    d.hist_bins(0, 10, bad)
                    res.violation('unknown-scale-accepted', 'hist_bins(scale=%r) did not raise' % (bad,), one)
                except Exception:
                    res.ok('refused', True)
            try:
                d.hist_bins([0, 1], [5, 5], ['linear', 'nope'])
                res.violation('unknown-scale-accepted', "hist_bins(scale=['linear','nope']) did not raise", one)
            except Exception:
                res.ok('refused', True)
            res.sample({'state': st, 'resolutions': rs, 'scale': 'per-channel lists', 'channels': [[0, 1, 2], ['CH3', 'CH1', 'CH2'], [2, 'CH1'], None]})
            return res
        if c.get('history') == 'empty':
            # a sample without events (everything gated out): the edges depend on range and resolution only
            d_full = d
            d = d[:0]
            if st in ('float-neg', 'float-neg-nan'):
                d._c19_min = [0, 0, 0]
        if c.get('history') == 'edited':
            # logicle bins are asked for, then the events are changed in place (background subtraction), then asked for again: the
            # second answer describes the sample as it is now
            try:
                for j in range(3):
                    d.hist_bins(j, None, 'logicle')
                    d.hist_bins(j, 7, 'logicle')
                d.hist_bins(None, None, 'logicle')
            except Exception as ex:
                res.violation('logicle:%s:edited:raises:%s' % (st, type(ex).__name__), 'hist_bins(%s, scale=\'logicle\') raised %s: %s' % (st, type(ex).__name__, ex), one)
                return res
            shift = [2500.0, 3.0, 777.5]
            for j in range(3):
                d[:, j] = np.asarray(d[:, j]) - shift[j]
            d._c19_min = [m_ - s_ for m_, s_ in zip(d._c19_min, shift)]
        if c.get('history') == 'after-log':
            # the same questions after log-scale bins have been asked for on the same object (answers must not depend on it)
            for j in range(3):
                d.hist_bins(j, None, 'log')
                d.hist_bins(j, 5, 'log')
            d.hist_bins(None, None, 'log')
        overrides = [{}]
        if scale == 'logicle':
            overrides = [{}, {'T': 5e4}, {'M': 5.0}, {'W': 0.8}, {'T': 1e5, 'M': 5.5, 'W': 0.3}, {'W': 0.0}, {'M': 3.0}, {'M': 4.0, 'W': 0.25},
                         {'T': 3e5, 'M': 2.0, 'W': 0.0}, {'M': 4.5}, {'M': 9.0, 'W': 2.0},
                         {'T': 1e6}, {'T': 5e7, 'W': 0.5}, {'T': 262144.0}]          # (an explicit T above 2**18 alone: M follows it)
        for j in range(3):
            r = rs[j]
            for nb in NBINS:
                nb = {'r+1': r + 1, '2r': 2 * r}.get(nb, nb)
                n = r if nb is None else nb
                for kw in overrides:
                    what = 'hist_bins(%s, channel %d (resolution %d), nbins=%r, scale=%r%s)' % (st, j, r, nb, scale, ''.join(', %s=%r' % kv for kv in kw.items()))
                    sig = '%s:%s%s' % (scale, st, (':' + c['history']) if c.get('history') else '')
                    try:
                        e = d.hist_bins(j, nb, scale, **kw)
                    except Exception as ex:
                        res.violation(sig + ':raises:%s' % type(ex).__name__, '%s raised %s: %s' % (what, type(ex).__name__, ex), one)
                        continue
                    lim = lims[j]
                    vals = allvals[j]
                    if scale == 'logicle' and (('T' in kw and kw['T'] < lim[1]) or ('M' in kw and kw['M'] < 4.5)):
                        # an explicit T below the range deliberately narrows the display, and with an explicit M below 4.5 decades the
                        # published equation itself puts display value M slightly below T; only form and grid are checked
                        e_ = np.asarray(e, dtype=float)
                        if e_.shape != (n + 1,) or np.any(np.diff(e_) <= 0) or not np.all(np.isfinite(e_)):
                            res.violation(sig + ':not-increasing', '%s: edges not increasing' % what, one)
                            continue
                    elif not check_edges(res, sig, what, e, n, lim, vals, scale, nb is None, None, one):
                        continue
                    e = np.asarray(e, dtype=float)
                    if scale == 'logicle':
                        T = kw.get('T', lim[1])
                        M = kw.get('M', logicleref.derived_M(T))
                        W = kw.get('W')
                        if W is None:
                            mn = getattr(d, '_c19_min', [0, 0, 0])[j]
                            W = logicleref.derived_W(T, M, mn if mn < 0 else None)
                        delta = M / (r - 1.0)
                        grid = [(-delta / 2) + i * (M + delta) / n for i in range(n + 1)]
                        step = max(1, (n + 1) // 400)
                        # (with NaN events next to negative ones "the most negative event" has two defensible readings -- the smallest
                        # number, or none because the minimum is undefined: the grid of either linear width is accepted)
                        Ws = [W] + ([0.0] if getattr(d, '_c19_nan', False) and 'W' not in kw else [])
                        bad = None
                        for W in Ws:
                            p = logicleref.p_of_W(W)
                            span = logicleref.biexp(M, T, M, W, p) - logicleref.biexp(0.0, T, M, W, p)
                            bad = None
                            for i in list(range(0, n + 1, step)) + [n]:
                                ref = logicleref.biexp(grid[i], T, M, W, p)
                                if abs(e[i] - ref) > 1e-7 * max(abs(ref), span):
                                    bad = (i, e[i], ref)
                                    break
                            if bad is None:
                                break
                        if bad:
                            res.violation(sig + ':grid', '%s: edge %d is %r, the image of the uniform display grid is %r' % (what, bad[0], float(bad[1]), bad[2]), one)
                            continue
                    if nb is None and ((scale == 'linear' and st in ('raw', 'rfi-lin', 'sliced-tail', 'sliced-step')) or (scale == 'log' and st in ('rfi-log4', 'rfi-log2.5-0') + tuple(LOWLOG))):
                        # each representable value is the centre of its own bin
                        if scale == 'linear':
                            centres = 0.5 * (e[:-1] + e[1:])
                            width = e[1] - e[0]
                            err = np.abs(centres - vals) / width
                        else:
                            centres = 0.5 * (np.log10(e[:-1]) + np.log10(e[1:]))
                            width = np.log10(e[1]) - np.log10(e[0])
                            err = np.abs(centres - np.log10(vals)) / width
                        if np.any(err > 1e-6):
                            i = int(np.argmax(err))
                            res.violation(sig + ':centre', '%s: channel value #%d (%r) is not at the centre of bin %d [%r, %r]' % (
                                what, i, float(vals[i]), i, float(e[i]), float(e[i + 1])), one)
                            continue
                        idxs = np.searchsorted(e, vals, side='right') - 1
                        if not np.array_equal(idxs, np.arange(r)):
                            res.violation(sig + ':own-bin', '%s: channel values do not fall one per bin' % what, one)
                            continue
                        res.ok(sig + ':centred', True)
                    else:
                        res.ok(sig, n > 1)
        res.sample({'state': st, 'resolutions': rs, 'scale': scale, 'nbins': NBINS, 'overrides': overrides})
    return res
