"""C13 -- no call changes its inputs, and results share no state with them (E2)."""
import inspect
import io
import itertools
import os
import warnings

import numpy as np

from .. import fcsgen, bfs
from ..fingerprint import fp, fbits, diff
from ..runner import Result, scratch

ID = 'C13'
LEVEL = 'model_checking'
ENGINE = 'E2'
TECHNIQUE = ('explicit-state search over call histories on real objects: the callable list is enumerated from the modules with '
             'inspect; every single call, every ordered pair (and triples over the cheap subset) of read-only calls on the same '
             'object; state = fingerprint of the object and of every caller-owned container, which every read-only call must leave '
             'fixed, and the answer of a call after any history must equal its answer on a fresh object; producing calls are followed '
             'by mutation of either side and re-fingerprinting of the other')
RULE = ('a transition = one public call applied in one history; states = distinct fingerprints of (object, containers) reached; '
        'every recipe x root once as a single, every ordered pair of read-only recipes once; non-trivial = the call reads the '
        'object or a container (all recipes do); callables without a recipe are listed as uncovered in the evidence')
ASSUMPTIONS = ['one or more argument recipes per public callable (array / integer sample / float sample / converted sample, every scale, scalar vs list, '
               'bins as int / list / arrays, parameter dictionaries); other argument shapes are not explored',
               'NumPy global RNG re-seeded before every call (clustering draws labels from it)',
               'figures are closed after every call; files written by plot calls go to the scratch directory']
CHUNK = 1

NAMES = ['FSC-H', 'SSC-H', 'FL1-H', 'FL2-H']


def bead_events():
    ev = []
    levels = [(150, 4), (380, 5), (600, 6), (850, 9)]
    k = 0
    for li, (mu, sd) in enumerate(levels):
        for i in range(45):
            k += 1
            a = mu + ((i * 7919) % (4 * sd + 1)) - 2 * sd
            b = mu - 20 + ((i * 104729) % (4 * sd + 1)) - 2 * sd
            ev.append([300 + (k * 37) % 200, 250 + (k * 53) % 180, a, b])
    # interleave so that populations are not contiguous
    order = sorted(range(len(ev)), key=lambda i: (i * 61) % len(ev))
    return [ev[i] for i in order]


def write_root(kind):
    ev = bead_events()
    extra = [('$P1V', '400'), ('$P3V', '550'), ('$P1G', '1.0'), ('$BTIM', '10:00:00'), ('$ETIM', '10:01:00'), ('$DATE', '01-JAN-2020')]
    if kind == 'float':
        # floating-point data with some zero and negative fluorescence events (log-scale code paths clamp those)
        fev = []
        for i, r in enumerate(ev):
            row = [float(x) + 0.25 for x in r]
            if i % 11 == 0:
                row[2] = 0.0
            if i % 13 == 0:
                row[3] = -2.5
            if i % 17 == 0:
                row[2] = -0.5
            fev.append(row)
        lay = dict(datatype='D', bits=[64] * 4, ranges=[1024] * 4, names=NAMES, pne=['0,0'] * 4, byteord='1,2,3,4', extra=extra,
                   events=[[fcsgen.float_bits(x, 'D') for x in r] for r in fev], analysis=[('AK', 'av')])
    else:
        lay = dict(datatype='I', bits=[16] * 4, ranges=[1024] * 4, names=NAMES, pne=['0,0', '0,0', '4,1', '4,1'], byteord='4,3,2,1',
                   extra=extra, events=ev, analysis=[('AK', 'av')])
    p = os.path.join(scratch(), 'c13_%s.fcs' % kind)
    if not os.path.exists(p):
        buf, _ = fcsgen.build(lay)
        with open(p, 'wb') as f:
            f.write(buf)
    return p


def make_root(kind):
    import FlowCal
    if kind == 'int':
        return FlowCal.io.FCSData(write_root('int'))
    if kind == 'float':
        return FlowCal.io.FCSData(write_root('float'))
    if kind == 'rfi':
        return FlowCal.transform.to_rfi(FlowCal.io.FCSData(write_root('int')))
    if kind == 'array':
        return np.array(FlowCal.transform.to_rfi(FlowCal.io.FCSData(write_root('int'))).view(np.ndarray))
    raise ValueError(kind)


ROOTS = ['int', 'float', 'rfi', 'array']


# ---------------------------------------------------------------------------------------
# fingerprints of inputs (with element identity) and of results

def deep(x):
    """fingerprint of an input, including identity of the elements of mutable containers"""
    if isinstance(x, list):
        return ('list', tuple(id(e) for e in x if isinstance(e, (np.ndarray, list, dict))), tuple(deep(e) for e in x))
    if isinstance(x, tuple):
        return ('tuple', tuple(deep(e) for e in x))
    if isinstance(x, dict):
        return ('dict', tuple(sorted((repr(k), deep(v)) for k, v in x.items())))
    if isinstance(x, io.BytesIO):
        return ('bytesio', x.getvalue())
    if hasattr(x, 'read') and hasattr(x, 'closed'):
        # an open file object handed in by the caller: still the caller's, still open (its position is not part of the state)
        return ('file', bool(x.closed), getattr(x, 'name', None), getattr(x, 'mode', None))
    if callable(x) and not isinstance(x, np.ndarray):
        return ('callable', getattr(x, '__name__', 'fn'))
    return fp(x)


PROBE = np.array([1.0, 10.0, 250.0, 3000.0])


def rfp(x, depth=0):
    """fingerprint of a result (an answer)"""
    import matplotlib
    if x is None:
        return None
    if isinstance(x, np.ma.MaskedArray):
        return ('ma', fp(np.ma.filled(x, -1)), fp(np.ma.getmaskarray(x)))
    if isinstance(x, np.ndarray):
        return fp(x)
    if isinstance(x, dict):
        return ('dict', tuple(sorted((repr(k), rfp(v, depth + 1)) for k, v in x.items())))
    if isinstance(x, (list, tuple)):
        return (type(x).__name__,) + tuple(rfp(e, depth + 1) for e in x)
    if isinstance(x, (matplotlib.artist.Artist, matplotlib.figure.Figure)):
        return 'mpl'
    if callable(x):
        try:
            return ('callable', fp(np.asarray(x(PROBE.copy()))))
        except Exception:
            return ('callable', getattr(x, '__name__', type(x).__name__))
    if isinstance(x, (str, int, float, bool, np.generic)):
        return fbits(x)
    return ('obj', type(x).__name__, repr(x)[:80] if not hasattr(x, '__dict__') else '')


# ---------------------------------------------------------------------------------------
# recipes: name -> (roots, builder).  builder(root_obj, root_kind) -> (inputs dict, call(inputs) -> result)

def _is_sample(kind):
    return kind != 'array'


def recipes():
    import FlowCal
    R = []

    def add(name, roots, build, kind='read', cheap=True, plot=False):
        R.append(dict(name=name, roots=roots, build=build, kind=kind, cheap=cheap, plot=plot))

    S = ['int', 'float', 'rfi']
    ALL = S + ['array']
    ch = lambda k: ('FL1-H' if k != 'array' else 2)
    ch2 = lambda k: (['FL2-H', 'FL1-H'] if k != 'array' else [3, 2])
    sc = lambda k: ([0, 1] if k == 'array' else ['FSC-H', 'SSC-H'])

    # --- FCSData properties and accessors
    for prop in ('infile', 'text', 'analysis', 'data_type', 'time_step', 'acquisition_start_time', 'acquisition_end_time',
                 'acquisition_time', 'channels'):
        add('FCSData.' + prop, S, lambda d, k, prop=prop: (dict(data=d), lambda a: getattr(a['data'], prop)))
    for acc in ('range', 'resolution', 'amplification_type', 'amplifier_gain', 'detector_voltage', 'channel_labels'):
        add('FCSData.%s()' % acc, S, lambda d, k, acc=acc: (dict(data=d), lambda a: getattr(a['data'], acc)()))
        add('FCSData.%s(name)' % acc, S, lambda d, k, acc=acc: (dict(data=d), lambda a: getattr(a['data'], acc)('FL1-H')))
        add('FCSData.%s(list)' % acc, S, lambda d, k, acc=acc: (dict(data=d, channels=['FL2-H', 0]), lambda a: getattr(a['data'], acc)(a['channels'])))
    add('FCSData.hist_bins()', S, lambda d, k: (dict(data=d), lambda a: a['data'].hist_bins()))
    for scale in ('linear', 'log', 'logicle'):
        add('FCSData.hist_bins(name,10,%s)' % scale, S, lambda d, k, s=scale: (dict(data=d), lambda a: a['data'].hist_bins('FL1-H', 10, s)))
        add('FCSData.hist_bins(None-bins,%s)' % scale, S, lambda d, k, s=scale: (dict(data=d), lambda a: a['data'].hist_bins(0, None, s)))
    add('FCSData.hist_bins(lists)', S, lambda d, k: (dict(data=d, channels=['FSC-H', 'FL1-H', 3], nbins=[5, 7, None], scale=['log', 'logicle', 'linear']),
                                                   lambda a: a['data'].hist_bins(a['channels'], a['nbins'], a['scale'])))
    add('FCSData.hist_bins(logicle,T,M,W)', S, lambda d, k: (dict(data=d, kw=dict(T=2000.0, M=4.0, W=0.5)),
                                                           lambda a: a['data'].hist_bins('FL2-H', 16, 'logicle', **a['kw'])))
    add('FCSData.__str__', S, lambda d, k: (dict(data=d), lambda a: str(a['data'])))
    add('FCSData[:, name]', S, lambda d, k: (dict(data=d), lambda a: a['data'][:, 'FL1-H']), kind='view')
    add('FCSData[:, list]', S, lambda d, k: (dict(data=d, key=['FL2-H', 0]), lambda a: a['data'][:, a['key']]), kind='produce')
    add('FCSData[int]', S, lambda d, k: (dict(data=d), lambda a: a['data'][2]), kind='view')
    add('FCSData[slice, slice]', S, lambda d, k: (dict(data=d), lambda a: a['data'][3:40:2, 1:3]), kind='view')
    add('FCSData[mask]', S, lambda d, k: (dict(data=d, mask=np.arange(d.shape[0]) % 3 == 0), lambda a: a['data'][a['mask']]), kind='produce')
    add('FCSData.copy()', S, lambda d, k: (dict(data=d), lambda a: a['data'].copy()), kind='produce')
    add('FCSData.view()', S, lambda d, k: (dict(data=d), lambda a: a['data'].view()), kind='view')
    add('FCSData.astype(float)', S, lambda d, k: (dict(data=d), lambda a: a['data'].astype(np.float64)), kind='produce')
    # samples produced by arithmetic and NumPy functions on a sample
    add('FCSData * 2.0', S, lambda d, k: (dict(data=d), lambda a: a['data'] * 2.0), kind='produce')
    add('FCSData + 1', S, lambda d, k: (dict(data=d), lambda a: a['data'] + 1), kind='produce')
    add('np.sqrt(FCSData)', S, lambda d, k: (dict(data=d), lambda a: np.sqrt(np.abs(a['data']))), kind='produce')
    add('np.log10(FCSData + 1.0)', S, lambda d, k: (dict(data=d), lambda a: np.log10(np.abs(a['data']) + 1.0)), kind='produce')
    add('np.maximum(FCSData, 10)', S, lambda d, k: (dict(data=d), lambda a: np.maximum(a['data'], 10)), kind='produce')
    add('FCSData - FCSData', S, lambda d, k: (dict(data=d), lambda a: a['data'] - a['data']), kind='produce')

    # --- io functions on files / buffers
    def b_file(d, k):
        p = write_root('int')
        return dict(path=p, filebytes=open(p, 'rb').read()), lambda a: FlowCal.io.FCSFile(a['path']).text

    def after_file(a):
        a['filebytes'] = open(a['path'], 'rb').read()
    add('io.FCSFile(path)', ['int'], lambda d, k: b_file(d, k) + (after_file,))
    add('io.FCSData(path)', ['int'], lambda d, k: (dict(path=write_root('int'), filebytes=open(write_root('int'), 'rb').read()),
                                                   lambda a: FlowCal.io.FCSData(a['path']), after_file))
    add('io.FCSData(open file)', ['int'], lambda d, k: (dict(fh=open(write_root('int'), 'rb')), lambda a: FlowCal.io.FCSData(a['fh'])))
    add('io.FCSFile(open file)', ['int'], lambda d, k: (dict(fh=open(write_root('int'), 'rb')), lambda a: FlowCal.io.FCSFile(a['fh']).text))
    add('io.read_fcs_header_segment', ['int'], lambda d, k: (dict(buf=io.BytesIO(open(write_root('int'), 'rb').read())),
                                                             lambda a: tuple(FlowCal.io.read_fcs_header_segment(a['buf']))))

    def b_text(d, k):
        raw = open(write_root('int'), 'rb').read()
        h = FlowCal.io.read_fcs_header_segment(io.BytesIO(raw))
        return dict(buf=io.BytesIO(raw), begin=h.text_begin, end=h.text_end), lambda a: FlowCal.io.read_fcs_text_segment(a['buf'], a['begin'], a['end'])
    add('io.read_fcs_text_segment', ['int'], b_text)

    def b_data(d, k):
        p = write_root('int')
        h = FlowCal.io.read_fcs_header_segment(open(p, 'rb'))
        return (dict(path=p, filebytes=open(p, 'rb').read(), widths=[16, 16, 16, 16], ranges=[1024.0] * 4),
                lambda a: FlowCal.io.read_fcs_data_segment(a['path'], h.data_begin, h.data_end, 'I', 180, a['widths'], True, a['ranges']), after_file)
    add('io.read_fcs_data_segment', ['int'], b_data)

    def b_data_arrays(d, k, mixed, wtype):
        # the per-parameter widths and ranges handed over as NumPy arrays (np.array of the $PnB / $PnR values), uniform and mixed widths
        bits = [16, 32, 8] if mixed else [16, 16, 16]
        lay = dict(datatype='I', bits=bits, ranges=[1024, 65536, 256] if mixed else [1024] * 3, byteord='1,2,3,4',
                   events=[[(37 * i + 11 * j) % 256 for j in range(3)] for i in range(20)])
        p = os.path.join(scratch(), 'c13_seg_%d.fcs' % mixed)
        buf, _ = fcsgen.build(lay)
        with open(p, 'wb') as f:
            f.write(buf)
        h = FlowCal.io.read_fcs_header_segment(open(p, 'rb'))
        wrap = {'int64': lambda x: np.array(x, dtype=np.int64), 'int32': lambda x: np.array(x, dtype=np.int32), 'tuple': tuple}[wtype]
        return (dict(path=p, filebytes=open(p, 'rb').read(), widths=wrap(bits), ranges=np.array(lay['ranges'], dtype=float)),
                lambda a: FlowCal.io.read_fcs_data_segment(a['path'], h.data_begin, h.data_end, 'I', 20, a['widths'], False, a['ranges']), after_file)
    for mixed in (0, 1):
        for wtype in ('int64', 'int32', 'tuple'):
            add('io.read_fcs_data_segment(%s widths as %s)' % ('mixed' if mixed else 'uniform', wtype), ['int'],
                lambda d, k, mixed=mixed, wtype=wtype: b_data_arrays(d, k, mixed, wtype))
    add('io.FCSFile.__eq__/__hash__', ['int'], lambda d, k: (dict(path=write_root('int')), lambda a: (
        FlowCal.io.FCSFile(a['path']) == FlowCal.io.FCSFile(a['path']), hash(FlowCal.io.FCSFile(a['path'])) == hash(FlowCal.io.FCSFile(a['path'])))))

    # --- transform
    add('transform.to_rfi(all)', S, lambda d, k: (dict(data=d), lambda a: FlowCal.transform.to_rfi(a['data'])), kind='produce')
    add('transform.to_rfi(name)', S, lambda d, k: (dict(data=d), lambda a: FlowCal.transform.to_rfi(a['data'], 'FL1-H')), kind='produce')
    add('transform.to_rfi(nested lists)', ALL, lambda d, k: (dict(data=d, channels=ch2(k), at=[[4.0, 0.0], [0.0, 0.0]], gain=[None, 2.0], res=[1024, None]),
                                                            lambda a: FlowCal.transform.to_rfi(a['data'], a['channels'], a['at'], a['gain'], a['res'])), kind='produce')
    add('transform.to_rfi(lists)', ALL, lambda d, k: (dict(data=d, channels=ch2(k), at=[(4, 1), (0, 0)], gain=[None, 2.0], res=[1024, None]),
                                                     lambda a: FlowCal.transform.to_rfi(a['data'], a['channels'], a['at'], a['gain'], a['res'])), kind='produce')
    curves = [lambda x: np.sign(x) * np.exp(2.0) * np.abs(x) ** 1.1, lambda x: np.sign(x) * np.exp(3.0) * np.abs(x) ** 0.95]
    add('transform.to_mef', ALL, lambda d, k: (dict(data=d, channels=ch2(k)[:1], sc_list=list(curves), sc_channels=ch2(k)),
                                               lambda a: FlowCal.transform.to_mef(a['data'], a['channels'], a['sc_list'], a['sc_channels'])), kind='produce')
    add('transform.to_mef(None)', ALL, lambda d, k: (dict(data=d, sc_list=list(curves), sc_channels=ch2(k)),
                                                     lambda a: FlowCal.transform.to_mef(a['data'], None, a['sc_list'], a['sc_channels'])), kind='produce')
    add('transform.transform(log10)', ALL, lambda d, k: (dict(data=d, channels=ch2(k)), lambda a: FlowCal.transform.transform(a['data'], a['channels'], np.log10)), kind='produce')
    add('transform.transform(def_channels)', ALL, lambda d, k: (dict(data=d, defch=ch2(k)), lambda a: FlowCal.transform.transform(a['data'], None, np.sqrt, a['defch'])), kind='produce')

    # --- gate
    add('gate.start_end', ALL, lambda d, k: (dict(data=d), lambda a: FlowCal.gate.start_end(a['data'], 5, 7, full_output=True)), kind='produce-tuple')
    add('gate.start_end(short)', ALL, lambda d, k: (dict(data=d), lambda a: FlowCal.gate.start_end(a['data'], 5, 7)), kind='produce')
    add('gate.high_low()', ALL, lambda d, k: (dict(data=d), lambda a: FlowCal.gate.high_low(a['data'], full_output=True)), kind='produce-tuple')
    add('gate.high_low(list,high,low)', ALL, lambda d, k: (dict(data=d, channels=ch2(k)), lambda a: FlowCal.gate.high_low(a['data'], a['channels'], high=5000, low=2.5)), kind='produce')
    add('gate.high_low(name)', ALL, lambda d, k: (dict(data=d), lambda a: FlowCal.gate.high_low(a['data'], ch(k))), kind='produce')
    for log in (False, True):
        add('gate.ellipse(log=%s)' % log, ALL, lambda d, k, log=log: (
            dict(data=d, channels=sc(k), center=[2.6, 2.5] if log else [400.0, 340.0]),
            lambda a: FlowCal.gate.ellipse(a['data'], a['channels'], center=a['center'], a=0.4 if log else 90.0, b=0.2 if log else 60.0,
                                           theta=0.3, log=log, full_output=True)), kind='produce-tuple')
    add('gate.density2d(int bins)', ALL, lambda d, k: (dict(data=d, channels=sc(k)), lambda a: FlowCal.gate.density2d(
        a['data'], a['channels'], bins=12, gate_fraction=0.5, sigma=1.0, full_output=True)), kind='produce-tuple')
    add('gate.density2d([int,int])', ALL, lambda d, k: (dict(data=d, channels=sc(k), bins=[10, 8]), lambda a: FlowCal.gate.density2d(
        a['data'], a['channels'], bins=a['bins'], gate_fraction=0.3, sigma=1.5, full_output=True)), kind='produce-tuple')
    add('gate.density2d([edges,int])', ALL, lambda d, k: (dict(data=d, channels=sc(k), bins=[np.linspace(250, 550, 9), 6]), lambda a: FlowCal.gate.density2d(
        a['data'], a['channels'], bins=a['bins'], gate_fraction=0.7, sigma=1.0)), kind='produce')
    for xs in ('linear', 'log', 'logicle'):
        add('gate.density2d(scale=%s)' % xs, S, lambda d, k, xs=xs: (dict(data=d, channels=['FSC-H', 'SSC-H'], bins=[16, 16]), lambda a: FlowCal.gate.density2d(
            a['data'], a['channels'], bins=a['bins'], gate_fraction=0.6, xscale=xs, yscale=xs, sigma=2.0, full_output=True)), kind='produce-tuple')

    def b_regate(d, k):
        o = FlowCal.gate.density2d(d, sc(k), bins=[np.linspace(250, 550, 9), np.linspace(200, 500, 7)], gate_fraction=0.5, sigma=1.0, full_output=True)
        return (dict(data=d, channels=sc(k), bins=[np.array(o.bin_edges[0]), np.array(o.bin_edges[1])], bin_mask=np.array(o.bin_mask)),
                lambda a: FlowCal.gate.density2d(a['data'], a['channels'], bins=a['bins'], bin_mask=a['bin_mask'], full_output=True))
    add('gate.density2d(bin_mask)', ALL, b_regate, kind='produce-tuple')
    add('gate.density2d([edges,edges],full)', ALL, lambda d, k: (dict(data=d, channels=sc(k), bins=[np.linspace(250, 550, 9), np.linspace(200, 500, 7)]), lambda a: FlowCal.gate.density2d(
        a['data'], a['channels'], bins=a['bins'], gate_fraction=0.6, sigma=1.0, full_output=True)), kind='produce-tuple')
    add('gate.density2d((edges,int edges),full)', ALL, lambda d, k: (dict(data=d, channels=sc(k), bins=(np.arange(250, 560, 31), np.arange(200, 520, 40))), lambda a: FlowCal.gate.density2d(
        a['data'], a['channels'], bins=a['bins'], gate_fraction=0.4, sigma=0.5, full_output=True)), kind='produce-tuple')

    # --- stats
    for st in ('mean', 'gmean', 'median', 'mode', 'std', 'cv', 'gstd', 'gcv', 'iqr', 'rcv'):
        add('stats.%s()' % st, ALL, lambda d, k, st=st: (dict(data=d), lambda a: getattr(FlowCal.stats, st)(a['data'])))
        add('stats.%s(name)' % st, ALL, lambda d, k, st=st: (dict(data=d), lambda a: getattr(FlowCal.stats, st)(a['data'], ch(k))))
        add('stats.%s(list)' % st, ALL, lambda d, k, st=st: (dict(data=d, channels=ch2(k)), lambda a: getattr(FlowCal.stats, st)(a['data'], a['channels'])))

    # --- mef
    fl = lambda k: ([2, 3] if k == 'array' else ['FL1-H', 'FL2-H'])
    for scale in ('linear', 'log', 'logicle'):
        add('mef.clustering_gmm(%s)' % scale, ALL, lambda d, k, s=scale: (dict(data=d[:, fl(k)] if k != 'array' else d[:, [2, 3]].copy()),
                                                                        lambda a: FlowCal.mef.clustering_gmm(a['data'], 4, scale=s)), cheap=False)

    def pops(d, k):
        col = d[:, fl(k)[:1]]
        n = col.shape[0] // 3
        return [col[:n], col[n:2 * n], col[2 * n:]]      # three arbitrary event groups are enough for the selection rule
    for scale in ('linear', 'log', 'logicle'):
        add('mef.selection_std(%s,defaults)' % scale, S, lambda d, k, s=scale: (dict(populations=pops(d, k), data=d), lambda a: FlowCal.mef.selection_std(a['populations'], scale=s)))
        add('mef.selection_std(%s,low,high)' % scale, ALL, lambda d, k, s=scale: (dict(populations=pops(d, k), data=d), lambda a: FlowCal.mef.selection_std(
            a['populations'], low=2.0, high=9000.0, scale=s)))
    RF, MF = np.array([12.0, 55.0, 260.0, 1300.0, 6000.0]), np.array([0.0, 646.0, 4827.0, 47609.0, 273006.0])
    add('mef.fit_beads_autofluorescence', ['int'], lambda d, k: (dict(fl_rfi=RF.copy(), fl_mef=MF.copy()), lambda a: FlowCal.mef.fit_beads_autofluorescence(a['fl_rfi'], a['fl_mef'])[:3]))

    def b_psc(d, k):
        fit = FlowCal.mef.fit_beads_autofluorescence(RF.copy(), MF.copy())
        import matplotlib.pyplot as plt
        return (dict(fl_rfi=RF.copy(), fl_mef=MF.copy(), xlim=[1.0, 1e4], ylim=[1.0, 1e6]),
                lambda a: (plt.figure(), FlowCal.mef.plot_standard_curve(a['fl_rfi'], a['fl_mef'], fit[1], fit[0], xscale='log', yscale='log',
                                                                           xlim=a['xlim'], ylim=a['ylim']))[1])
    add('mef.plot_standard_curve', ['int'], b_psc, plot=True, cheap=False)

    def b_gtf(plot, full):
        def b(d, k):
            inputs = dict(data=d, mef_values=[[0.0, 646.0, 4827.0, 47609.0], [0.0, 1000.0, 9000.0, 80000.0]] if (not full or k != 'rfi') else [[None, 646.0, 4827.0, 47609.0], [0.0, 1000.0, 9000.0, 80000.0]],
                          mef_channels=['FL1-H', 'FL2-H'], clustering_channels=['FL1-H', 'FL2-H'],
                          clustering_params={'tol': 1e-6}, statistic_params={}, selection_params={'n_std_low': 2.0}, fitting_params={})
            return inputs, lambda a: FlowCal.mef.get_transform_fxn(
                a['data'], a['mef_values'], a['mef_channels'], clustering_params=a['clustering_params'], clustering_channels=a['clustering_channels'],
                statistic_params=a['statistic_params'], selection_params=a['selection_params'], fitting_params=a['fitting_params'],
                plot=plot, plot_dir=scratch() if plot else None, plot_filename='c13beads', full_output=full)
        return b
    add('mef.get_transform_fxn', ['rfi', 'float'], b_gtf(False, False), cheap=False, kind='read-fn')
    add('mef.get_transform_fxn(full)', ['rfi'], b_gtf(False, True), cheap=False, kind='read-fn')
    # also on samples whose ranges start at 0 (raw channel numbers, linear float data): the plotting branch adjusts a lower limit
    add('mef.get_transform_fxn(plot)', ['rfi', 'float'], b_gtf(True, True), cheap=False, plot=True)
    add('mef.get_transform_fxn(one channel)', ['rfi'], lambda d, k: (
        dict(data=d, mef_values=[0.0, 646.0, 4827.0, 47609.0], clustering_channels=['FL1-H']),
        lambda a: FlowCal.mef.get_transform_fxn(a['data'], a['mef_values'], 'FL1-H', clustering_channels=a['clustering_channels'])), cheap=False)

    # --- plot
    import matplotlib.pyplot as plt

    def fig(fn):
        def call(a):
            plt.figure()
            return fn(a)
        return call
    for xs in ('linear', 'log', 'logicle'):
        add('plot.hist1d(%s)' % xs, ALL, lambda d, k, xs=xs: (dict(data=d), fig(lambda a: FlowCal.plot.hist1d(a['data'], channel=ch(k), xscale=xs, bins=20))), plot=True, cheap=False)
        add('plot.hist1d(list,%s)' % xs, S, lambda d, k, xs=xs: (dict(data_list=[d, d[::2]], bins=None, labels=['a', 'b']),
                                                                fig(lambda a: FlowCal.plot.hist1d(a['data_list'], channel='FL1-H', xscale=xs, bins=a['bins'],
                                                                                                  legend=True, legend_labels=a['labels']))), plot=True, cheap=False)
        add('plot.scatter2d(%s)' % xs, ALL, lambda d, k, xs=xs: (dict(data_list=[d], channels=sc(k), xlim=[1.0, 2000.0]), fig(lambda a: FlowCal.plot.scatter2d(a['data_list'], a['channels'], xscale=xs, yscale=xs, xlim=a['xlim'] if k == 'array' else None, ylim=a['xlim'] if k == 'array' else None))), plot=True, cheap=False)
        add('plot.density2d(mesh,%s)' % xs, S, lambda d, k, xs=xs: (dict(data=d, channels=['FSC-H', 'SSC-H'], bins=[16, 12]),
                                                                   fig(lambda a: FlowCal.plot.density2d(a['data'], a['channels'], bins=a['bins'], mode='mesh', xscale=xs, yscale=xs, sigma=1.0))), plot=True, cheap=False)
    add('plot.hist1d(bins array)', ALL, lambda d, k: (dict(data=d, bins=np.linspace(0, 1e4, 30)), fig(lambda a: FlowCal.plot.hist1d(a['data'], channel=ch(k), xscale='linear', bins=a['bins']))), plot=True, cheap=False)
    add('plot.hist1d(bins list)', ALL, lambda d, k: (dict(data=d, bins=list(np.linspace(1, 1e4, 30)), xlim=[1, 1e4]), fig(lambda a: FlowCal.plot.hist1d(a['data'], channel=ch(k), xscale='log', bins=a['bins'], xlim=a['xlim']))), plot=True, cheap=False)
    add('plot.density2d(scatter)', ALL, lambda d, k: (dict(data=d, channels=sc(k), bins=[np.linspace(200, 600, 17), np.linspace(200, 500, 13)]),
                                                      fig(lambda a: FlowCal.plot.density2d(a['data'], a['channels'], bins=a['bins'], mode='scatter', xscale='linear', yscale='linear', sigma=1.0))), plot=True, cheap=False)
    for xs_, ys_ in (('log', 'log'), ('linear', 'log'), ('log', 'logicle')):
        add('plot.density2d(edge arrays from below zero,%s/%s)' % (xs_, ys_), ALL, lambda d, k, xs_=xs_, ys_=ys_: (
            dict(data=d, channels=sc(k), bins=[np.linspace(-0.5, 1023.5, 17), np.linspace(-0.5, 1023.5, 13)]),
            fig(lambda a: FlowCal.plot.density2d(a['data'], a['channels'], bins=a['bins'], mode='mesh', xscale=xs_, yscale=ys_, sigma=1.0))), plot=True, cheap=False)
    add('plot.density2d(one edge array for both axes,log)', ALL, lambda d, k: (dict(data=d, channels=sc(k), bins=np.linspace(0.0, 1024.0, 17)),
                                                                              fig(lambda a: FlowCal.plot.density2d(a['data'], a['channels'], bins=a['bins'], mode='scatter', xscale='log', yscale='log', sigma=1.0))), plot=True, cheap=False)
    add('plot.density2d(int bins,array)', ALL, lambda d, k: (dict(data=d, channels=sc(k)), fig(lambda a: FlowCal.plot.density2d(a['data'], a['channels'], bins=16, mode='mesh', xscale='linear', yscale='linear', sigma=1.0))), plot=True, cheap=False)
    add('plot.scatter3d', ALL, lambda d, k: (dict(data_list=[d], channels=[0, 2, 3]), fig(lambda a: FlowCal.plot.scatter3d(a['data_list'], a['channels'], xscale='linear', yscale='log', zscale='logicle', **(dict(xlim=[1., 2000.], ylim=[1., 1e4], zlim=[1., 1e4]) if k == 'array' else {})))), plot=True, cheap=False)
    add('plot.scatter3d_and_projections', S, lambda d, k: (dict(data_list=[d], channels=['FSC-H', 'FL1-H', 'FL2-H']), lambda a: FlowCal.plot.scatter3d_and_projections(a['data_list'], a['channels'])), plot=True, cheap=False)

    def b_dh(d, k):
        g = FlowCal.gate.density2d(d, ['FSC-H', 'SSC-H'], bins=[16, 16], gate_fraction=0.5, sigma=1.0, full_output=True)
        return (dict(data=d, gated=g.gated_data, contour=list(g.contour), dch=['FSC-H', 'SSC-H'], dparams={'mode': 'scatter', 'bins': [16, 16], 'sigma': 1.0},
                     hch=['FL1-H', 'FL2-H'], hparams={'xscale': 'log', 'bins': 20}),
                lambda a: FlowCal.plot.density_and_hist(a['data'], a['gated'], a['contour'], density_channels=a['dch'], density_params=a['dparams'],
                                                        hist_channels=a['hch'], hist_params=a['hparams']))
    add('plot.density_and_hist', S, b_dh, plot=True, cheap=False)
    add('plot.density_and_hist(empty params)', S, lambda d, k: (dict(data=d, dch=['FSC-H', 'SSC-H'], dparams={}, hch=['FL1-H'], hparams={}),
                                                              lambda a: FlowCal.plot.density_and_hist(a['data'], density_channels=a['dch'], density_params=a['dparams'], hist_channels=a['hch'], hist_params=a['hparams'])), plot=True, cheap=False)
    add('plot.density_and_hist(list params)', S, lambda d, k: (dict(data=d, dch=['FSC-H', 'SSC-H'], dparams={'bins': [16, 16], 'sigma': 1.0}, hch=['FL1-H', 'FL2-H'], hparams=[{'xscale': 'log'}, {'xscale': 'logicle', 'bins': 30}]),
                                                             lambda a: FlowCal.plot.density_and_hist(a['data'], density_channels=a['dch'], density_params=a['dparams'], hist_channels=a['hch'], hist_params=a['hparams'])), plot=True, cheap=False)
    add('plot.violin', ALL, lambda d, k: (dict(data=[d[:, ch(k)] if k != 'array' else d[:, 2], (d[::2, ch(k)] if k != 'array' else d[::2, 2])], positions=[1.0, 2.0], vk={'facecolor': 'gray'}),
                                          fig(lambda a: FlowCal.plot.violin(a['data'], positions=a['positions'], yscale='log', violin_kwargs=a['vk']))), plot=True, cheap=False)
    add('plot.violin(channel)', S, lambda d, k: (dict(data=[d, d[::3]]), fig(lambda a: FlowCal.plot.violin(a['data'], channel='FL1-H', yscale='logicle'))), plot=True, cheap=False)
    add('plot.violin_dose_response', S, lambda d, k: (dict(data=[d, d[::2], d[::3]], positions=np.array([0.0, 1.0, 10.0]), min_data=d[::4], max_data=d[::5]),
                                                     fig(lambda a: FlowCal.plot.violin_dose_response(a['data'], channel='FL2-H', positions=a['positions'], min_data=a['min_data'],
                                                                                                       max_data=a['max_data'], xscale='log', yscale='log', model_fxn=lambda x: 500 + x))), plot=True, cheap=False)
    return R


def public_callables():
    import FlowCal
    out = []
    for mod in (FlowCal.io, FlowCal.transform, FlowCal.gate, FlowCal.stats, FlowCal.mef, FlowCal.plot):
        for n, o in inspect.getmembers(mod):
            if n.startswith('_') or getattr(o, '__module__', None) != mod.__name__:
                continue
            if inspect.isfunction(o):
                out.append('%s.%s' % (mod.__name__.split('.')[-1], n))
    for n in FlowCal.io.FCSData.__dict__:
        if not n.startswith('_'):
            out.append('FCSData.' + n)
    return sorted(out)


def defaults_fp():
    """fingerprint of every public function's default arguments (mutable defaults are shared state)"""
    import FlowCal
    out = []
    for mod in (FlowCal.io, FlowCal.transform, FlowCal.gate, FlowCal.stats, FlowCal.mef, FlowCal.plot):
        for n, o in inspect.getmembers(mod, inspect.isfunction):
            if getattr(o, '__module__', None) == mod.__name__:
                out.append((mod.__name__, n, repr([d for d in (o.__defaults__ or ()) if isinstance(d, (list, dict))])))
    return tuple(out)


_REC = None


def rec_table():
    global _REC
    if _REC is None:
        _REC = {r['name']: r for r in recipes()}
    return _REC


def do_call(rname, kind, obj):
    """build fresh inputs around obj and call; returns (inputs, before fp, after fp, result, exception)"""
    import matplotlib.pyplot as plt
    r = rec_table()[rname]
    built = r['build'](obj, kind)
    inputs, call = built[0], built[1]
    post = built[2] if len(built) > 2 else None
    before = {k_: deep(v) for k_, v in inputs.items()}
    np.random.seed(12345)
    exc = result = None
    try:
        with warnings.catch_warnings():
            warnings.simplefilter('ignore')
            result = call(inputs)
    except Exception as e:
        exc = e
    if post:
        post(inputs)
    after = {k_: deep(v) for k_, v in inputs.items()}
    if r['plot']:
        plt.close('all')
    return inputs, before, after, result, exc


def cases(tier, seed):
    names = [r['name'] for r in recipes()]
    yield dict(kind='inventory')
    for root in ROOTS:
        # singles + producers: split in blocks
        mine = [r['name'] for r in recipes() if root in r['roots']]
        for i in range(0, len(mine), 12):
            yield dict(kind='singles', root=root, names=mine[i:i + 12])
        reads = [r['name'] for r in recipes() if root in r['roots'] and r['kind'] in ('read', 'read-fn')]
        cheap = [n for n in reads if rec_table()[n]['cheap']]
        heavy = [n for n in reads if not rec_table()[n]['cheap']]
        # pairs: every ordered pair of cheap read-only calls
        for i in range(0, len(cheap), 6):
            yield dict(kind='pairs', root=root, first=cheap[i:i + 6], second=cheap)
        # heavy calls (plots, clustering, calibration) first, followed by each call of a representative (quick) / the whole (thorough) list
        rep = cheap if tier == 'thorough' else [n for n in cheap if any(t in n for t in (
            'range()', 'hist_bins(name,10,log)', 'hist_bins(None-bins,logicle)', 'stats.mean()', 'stats.iqr(list)', 'FCSData.text',
            'FCSData.channels', 'selection_std(log,defaults)', 'resolution(list)', 'amplification_type()'))]
        for h in heavy:
            yield dict(kind='pairs', root=root, first=[h], second=rep + (heavy if tier == 'thorough' else heavy[:3]))
        if tier == 'thorough':
            for i in range(0, len(cheap), 4):
                yield dict(kind='pairs', root=root, first=cheap[i:i + 4], second=heavy)
        # triples over the cheap accessor / bins / stats subset
        sub = [n for n in cheap if n.startswith('FCSData.') or 'selection_std' in n][: (14 if tier == 'quick' else 40)]
        for a in sub:
            yield dict(kind='triples', root=root, first=a, rest=sub)


def bounds(tier, seed):
    return {'roots': ROOTS, 'recipes': len(recipes()), 'pairs': 'all ordered pairs of cheap read-only recipes; heavy recipes first x %s' % (
        'representative second calls' if tier == 'quick' else 'all second calls, and all cheap first x heavy second'),
        'triples': 'accessor / bin-generator subset'}


def mutate_obj(x):
    """change values, ranges and keywords of a sample (or values of an array) in place"""
    import FlowCal
    if isinstance(x, np.ndarray) and x.size:
        flat = x.reshape(-1) if x.flags['C_CONTIGUOUS'] else None
        try:
            x[(0,) * x.ndim] = x[(0,) * x.ndim] + 1
        except Exception:
            pass
    if isinstance(x, FlowCal.io.FCSData):
        try:
            x.range(0)[0] = -12345.0
            x.range(0)[1] = 54321.0
        except Exception:
            pass
        x.text['MUTATED'] = 'yes'
        x.analysis['MUTATED'] = 'yes'


def strip_values(f):
    """fingerprint of a sample without its event values (views may share the buffer)"""
    if isinstance(f, tuple) and f and f[0] == 'FCSData':
        return ('FCSData-meta', f[2])
    return 'array-values-may-be-shared'


def run_case(c):
    import FlowCal
    import matplotlib
    matplotlib.use('Agg')
    res = Result()
    T = rec_table()
    if c['kind'] == 'inventory':
        pub = public_callables()
        covered = set()
        for n in T:
            base = n.split('(')[0].split('[')[0]
            base = base.replace('io.FCSFile.__eq__/__hash__', 'io.FCSFile')
            covered.add(base)
        unc = []
        for p in pub:
            short = p
            if short in covered or any(cn.startswith(short) for cn in covered):
                continue
            unc.append(p)
        res.ok('inventory', True)
        res.notes['public callables enumerated'] = len(pub)
        res.notes['public callables without a recipe: %s' % (', '.join(unc) or 'none')] = len(unc) or 1
        res.sample({'public_callables': pub, 'recipes': sorted(T)})
        return res
    kind = c['root']
    dflt0 = defaults_fp()

    def fresh():
        return make_root(kind)

    def check_inputs(rname, before, after, hist, one):
        bad = [k_ for k_ in before if before[k_] != after[k_]]
        if bad:
            k_ = bad[0]
            res.violation('input-changed:%s:%s' % (rname, k_), '%s on a %s root%s changed its input %r: %s' % (
                rname, kind, (' after ' + ' ; '.join(hist)) if hist else '', k_, diff(before[k_], after[k_])), one)
            return False
        return True

    if c['kind'] == 'singles':
        for rname in c['names']:
            r = T[rname]
            one = dict(kind='singles', root=kind, names=[rname])
            obj = fresh()
            inputs, before, after, result, exc = do_call(rname, kind, obj)
            res.counters['transitions'] += 1
            if exc is not None:
                res.violation('raises:%s:%s' % (rname, type(exc).__name__), '%s on a %s root raised %s: %s' % (rname, kind, type(exc).__name__, exc), one)
                continue
            ok = check_inputs(rname, before, after, [], one)
            if defaults_fp() != dflt0:
                res.violation('defaults-changed:%s' % rname, '%s changed a mutable default argument of a public function' % rname, one)
                ok = False
            res.hashes.add(bfs.digest(('state', kind, tuple(sorted(after.items())) if ok else repr(sorted(after.items())))))
            # determinism of the answer (same call on a fresh object)
            obj2 = fresh()
            _, _, _, result2, exc2 = do_call(rname, kind, obj2)
            if rfp(result) != rfp(result2):
                res.violation('answer-not-reproducible:%s' % rname, '%s gives different answers on two fresh %s objects: %s' % (
                    rname, kind, diff(rfp(result), rfp(result2))), one)
                ok = False
            # aliasing: producing calls
            if ok and r['kind'] in ('produce', 'produce-tuple', 'view'):
                outs = [result] if r['kind'] != 'produce-tuple' else [result.gated_data]
                if r['kind'] == 'produce-tuple' and getattr(result, 'bin_edges', None) is not None:
                    # the bin edges reported by the density gate are the gate's own arrays, not the caller's bin specification
                    outs += [e for e in result.bin_edges if isinstance(e, np.ndarray)]
                data_in = inputs.get('data')
                for which, o in enumerate(outs):
                    if not isinstance(o, np.ndarray):
                        continue
                    # mutate the result, the inputs must not change (views may share event values)
                    snap = {k_: deep(v) for k_, v in inputs.items()}
                    mutate_obj(o)
                    now = {k_: deep(v) for k_, v in inputs.items()}
                    for k_ in snap:
                        a_, b_ = snap[k_], now[k_]
                        if r['kind'] == 'view' and k_ == 'data':
                            a_, b_ = strip_values(a_), strip_values(b_)
                        if a_ != b_:
                            res.violation('result-aliases-input:%s:%s' % (rname, k_), 'changing the result of %s (%s root) changed the input %r: %s' % (
                                rname, kind, k_, diff(a_, b_)), one)
                            ok = False
                if ok:
                    # and the other way round, on a fresh pair
                    obj3 = fresh()
                    inputs3, _, _, result3, _ = do_call(rname, kind, obj3)
                    outs3 = [result3] if r['kind'] != 'produce-tuple' else [result3.gated_data]
                    snap = [rfp(o) for o in outs3]
                    for v in inputs3.values():
                        if isinstance(v, np.ndarray):
                            mutate_obj(v)
                        elif isinstance(v, list):
                            for e in v:
                                if isinstance(e, np.ndarray):
                                    mutate_obj(e)
                            v.append('MUTATED')
                        elif isinstance(v, dict):
                            v['MUTATED'] = 1
                    now = [rfp(o) for o in outs3]
                    for s_, n_, o in zip(snap, now, outs3):
                        if r['kind'] == 'view' and isinstance(o, np.ndarray):
                            s_, n_ = strip_values(s_), strip_values(n_)
                        if s_ != n_:
                            res.violation('input-aliases-result:%s' % rname, 'changing the inputs of %s (%s root) afterwards changed its result: %s' % (
                                rname, kind, diff(s_, n_)), one)
                            ok = False
            if ok and r['kind'] in ('produce', 'produce-tuple', 'view') and not r['plot']:
                # siblings: two results derived from the same inputs one after the other share nothing with each other either --
                # changing the first leaves a second, later derivation equal to what a fresh object gives
                ref_fp = rfp(result2)
                try:
                    obj4 = fresh()
                    built4 = r['build'](obj4, kind)
                    inputs4, call4 = built4[0], built4[1]
                    with warnings.catch_warnings():
                        warnings.simplefilter('ignore')
                        np.random.seed(12345)
                        ra = call4(inputs4)
                        oa = ra if r['kind'] != 'produce-tuple' else ra.gated_data
                        if isinstance(oa, np.ndarray):
                            mutate_obj(oa)
                        np.random.seed(12345)
                        rb = call4(inputs4)
                    got_fp = rfp(rb)
                    if r['kind'] == 'view':
                        got_fp, ref_cmp = strip_values(got_fp), strip_values(ref_fp)
                    else:
                        ref_cmp = ref_fp
                    if got_fp != ref_cmp:
                        res.violation('sibling-results-share-state:%s' % rname, 'after the first result of %s (%s root) was changed, a second call on the same inputs gives a different result: %s' % (
                            rname, kind, diff(got_fp, ref_cmp)), one)
                        ok = False
                except Exception as e:
                    res.violation('sibling-call-raises:%s:%s' % (rname, type(e).__name__), 'calling %s a second time on the same inputs (%s root) raised %s: %s' % (rname, kind, type(e).__name__, e), one)
                    ok = False
            if ok and r['kind'] == 'read-fn':
                # a returned calibration function must have fixed its curves and channels: changing the caller's
                # containers afterwards must not change what it computes
                fn = result if callable(result) else result.transform_fxn
                probe = make_root('rfi')[:40]
                snap = rfp(fn(probe, ['FL1-H'])), rfp(fn(probe, None))
                for key_, v in inputs.items():
                    if isinstance(v, list):
                        v.reverse()
                        for e in v:
                            if isinstance(e, list):
                                e[:] = [5.0] * len(e)
                    elif isinstance(v, dict):
                        v['tol'] = 1.0
                try:
                    now = rfp(fn(probe, ['FL1-H'])), rfp(fn(probe, None))
                except Exception as e:
                    now = ('raises', type(e).__name__)
                if now != snap:
                    res.violation('input-aliases-result:%s' % rname, 'changing the caller\'s lists / dictionaries after %s changed what the returned function computes' % rname, one)
                    ok = False
            if ok:
                res.ok('single:' + r['kind'], True)
        res.sample({'root': kind, 'history': [c['names'][0]]})
        return res

    if c['kind'] in ('pairs', 'triples'):
        # answers on fresh objects
        fresh_ans = {}

        def answer(rname):
            if rname not in fresh_ans:
                _, _, _, result, exc = do_call(rname, kind, fresh())
                fresh_ans[rname] = ('exc', type(exc).__name__) if exc is not None else rfp(result)
            return fresh_ans[rname]
        if c['kind'] == 'pairs':
            hists = [(a, b) for a in c['first'] for b in c['second']]
        else:
            hists = [(c['first'], b, d_) for b in c['rest'] for d_ in c['rest']]
        if 'only' in c:
            hists = [tuple(c['only'])]
        for hist in hists:
            obj = fresh()
            root_fp = fp(obj)
            one = dict(kind=c['kind'], root=kind, only=list(hist), first=hist[0], second=[], rest=[])
            okh = True
            for i, rname in enumerate(hist):
                inputs, before, after, result, exc = do_call(rname, kind, obj)
                res.counters['transitions'] += 1
                if exc is not None:
                    if answer(rname) != ('exc', type(exc).__name__):
                        res.violation('history-dependent-failure:%s' % rname, '%s raised %s after %s on a %s root, but not on a fresh object' % (
                            rname, type(exc).__name__, ' ; '.join(hist[:i]), kind), one)
                        okh = False
                    break
                if not check_inputs(rname, before, after, list(hist[:i]), one):
                    okh = False
                    break
                got = rfp(result)
                if i > 0 and got != answer(rname):
                    res.violation('history-dependent-answer:%s:after:%s' % (rname, hist[i - 1]), 'the answer of %s on a %s root differs after %s: %s' % (
                        rname, kind, ' ; '.join(hist[:i]), diff(got, answer(rname))), one)
                    okh = False
                    break
            now = fp(obj)
            res.hashes.add(bfs.digest(('root', kind, now)))
            if okh and now != root_fp:
                res.violation('object-changed:%s' % hist[-1], 'the %s object changed after %s: %s' % (kind, ' ; '.join(hist), diff(root_fp, now)), one)
                okh = False
            if okh:
                res.ok(c['kind'], True)
        res.counters['traces_validated_against_impl'] += len(hists)
        res.sample({'root': kind, 'history': list(hists[0])})
        return res
    raise ValueError(c['kind'])
