"""C01 -- loading an FCS file returns exactly the events recorded in it (E1)."""
import itertools
import os
import warnings

import numpy as np

from .. import fcsgen, explore
from ..runner import Result, scratch

ID = 'C01'
LEVEL = 'exploration'
TECHNIQUE = ('bounded exhaustive enumeration of file layouts (complete product of byte order x '
             'width tuples x range kind x end convention x offset placement, plus all <=k-deviation '
             'layouts in the remaining dimensions), each file written by an independent encoder and '
             'decoded by the real reader')
RULE = ('every layout of the stated product / deviation ball is generated exactly once; each file '
        'carries boundary rows (byte ramp, all ones, zero, high bit only, 0xA5 pattern; for floats '
        '+-0, subnormal, 1, -2.5, max finite, +-inf, NaN) so that any wrong shift, order, mask or '
        'offset changes a cell; a layout is non-trivial when it has >=1 event (supported) or is a '
        'refused layout; distinct by construction of the enumeration')
ASSUMPTIONS = ['the encoder fcverif/fcsgen.py (int.to_bytes/struct, no NumPy) writes the value it is given',
               '$PnR above 2**53 that are not powers of two are outside the explored alphabet',
               'files live on tmpfs (/dev/shm); memmap semantics equal those of a disk file']
CHUNK = 32

WIDTHS = (8, 16, 24, 32, 40, 48, 56, 64)
# the standard fixes no order of the segments in the file: DATA first, supplemental TEXT first, ANALYSIS first
SEG_ORDERS = [['data', 'text', 'stext', 'analysis'], ['stext', 'analysis', 'text', 'data'], ['analysis', 'data', 'stext', 'text'],
              ['text', 'analysis', 'data', 'stext']]
BYTEORDS = ('4,3,2,1', '1,2,3,4', '2,1', '1,2')
RKINDS = ('full', 'smaller', 'npot')


def rng_of(w, kind):
    if kind == 'full':
        return 2 ** w
    if kind == 'smaller':
        return 2 ** (w - 3)
    if kind == 'npot':
        return 2 ** (w - 2) - 1
    if kind == 'npot_above':          # just above a power of two (needs one more bit); kept below 2**53 so that
        return 2 ** min(w - 3, 50) + 1   # the declared range survives the reader's float conversion
    raise ValueError(kind)


def int_rows(widths, n):
    rows = []
    pats = ('ramp', 'ones', 'zero', 'high', 'a5', 'low1', '5a', 'bit50', 'bit47')
    for p in pats[:n] if n <= len(pats) else pats:
        row = []
        for w in widths:
            nb = w // 8
            if p == 'ramp':
                v = int.from_bytes(bytes(range(1, nb + 1)), 'big')
            elif p == 'ones':
                v = 2 ** w - 1
            elif p == 'zero':
                v = 0
            elif p == 'high':
                v = 1 << (w - 1)
            elif p == 'a5':
                v = int.from_bytes(b'\xa5' * nb, 'big')
            elif p == 'low1':
                v = 1
            elif p in ('bit50', 'bit47'):
                v = (1 << int(p[3:])) % (2 ** w)
            else:
                v = int.from_bytes(b'\x5a' * nb, 'big')
            row.append(v)
        rows.append(row)
    return rows[:n]


FLOATS = [0.0, -0.0, 1.0, -2.5, float('inf'), float('-inf'), 1e-40, 3.4028234663852886e38,
          float('nan'), 123456.789]


def float_rows(dt, D, n):
    vals = list(FLOATS)
    if dt == 'D':
        vals[6] = 5e-324
        vals[7] = 1.7976931348623157e308
    rows = []
    for i in range(n):
        rows.append([fcsgen.float_bits(vals[(i * D + j) % len(vals)], dt) for j in range(D)])
    return rows


def make_layout(c):
    lay = dict(version=c.get('version', 'FCS3.0'), datatype=c.get('datatype', 'I'),
               byteord=c['byteord'], offsets=c.get('offsets', 'header'), end=c.get('end', 'last'),
               pad=c.get('pad', 0), delim=c.get('delim', '/'))
    n = c.get('n', 5)
    if lay['datatype'] in ('F', 'D'):
        D = c.get('D', 2)
        w = 32 if lay['datatype'] == 'F' else 64
        lay['bits'] = [w] * D
        lay['ranges'] = [c.get('frange', 262144)] * D
        lay['events'] = float_rows(lay['datatype'], D, c.get('nbig') or n)
    else:
        lay['bits'] = list(c['widths'])
        lay['ranges'] = [rng_of(w, k) for w, k in zip(lay['bits'], c['rk'])]
        lay['events'] = int_rows(lay['bits'], n)
        if c.get('nbig'):
            # many events: a multiplicative-hash ramp so that every row differs from its neighbours in every byte
            lay['events'] = [[((i * 2654435761 + j * 40503 + 1) ^ (i >> 3)) % (2 ** w) for j, w in enumerate(lay['bits'])]
                             for i in range(c['nbig'])]
    if c.get('stext'):
        lay['stext'] = [('SUPP1', 'x'), ('SUPP2', 'y' + lay['delim'])]
        lay['stext_pos'] = c['stext']
    if c.get('analysis'):
        lay['analysis'] = [('AN1', 'v1')]
        lay['analysis_offsets'] = c['analysis']
    if c.get('pad_before'):
        lay['pad_before'] = dict(c['pad_before'])
    if c.get('offset_format'):
        lay['offset_format'] = c['offset_format']
    if c.get('seg_order'):
        lay['seg_order'] = list(c['seg_order'])
        if not lay.get('stext'):
            lay.pop('stext_pos', None)
    for k in ('mode', 'bits_override', 'byteord_override', 'datatype_override'):
        pass
    if 'refuse' in c:
        r = c['refuse']
        if r[0] == 'mode':
            lay['mode'] = r[1]
        elif r[0] == 'datatype':
            lay['datatype'] = r[1]
        elif r[0] == 'byteord':
            lay['byteord'] = r[1]
        elif r[0] == 'bits':
            # non byte aligned: declare width r[1] for parameter 0, keep the bytes written
            lay['bits_declared'] = r[1]
    return lay


def write(lay, name):
    path = os.path.join(scratch(), name)
    declared = lay.pop('bits_declared', None)
    buf, info = fcsgen.build(lay)
    if declared is not None:
        old = ('/$P1B/%d/' % lay['bits'][0]).replace('/', lay.get('delim', '/')).encode()
        new = ('/$P1B/%d/' % declared).replace('/', lay.get('delim', '/')).encode()
        assert len(old) == len(new) and buf.count(old) == 1
        buf = buf.replace(old, new)
    with open(path, 'wb') as f:
        f.write(buf)
    return path, info


def as_bits(a):
    """ndarray of floats/ints -> nested list of python ints (bit patterns for floats)."""
    a = np.asarray(a)
    if a.dtype.kind == 'f':
        nat = np.ascontiguousarray(a).astype(a.dtype.newbyteorder('='))
        u = nat.view('u%d' % a.dtype.itemsize)
        return [[int(x) for x in row] for row in u]
    return [[int(x) for x in row] for row in a]


def cases(tier, seed):
    # (A) complete product of the dimensions the decoder visibly couples
    Ds = (1, 2) if tier == 'quick' else (1, 2, 3)
    for D in Ds:
        for widths in itertools.product(WIDTHS, repeat=D):
            for bo in BYTEORDS:
                for rk in RKINDS:
                    for end in ('last', 'onepast'):
                        for off in ('header', 'text'):
                            if tier == 'thorough' and D == 3 and (end, off) == ('onepast', 'text') and False:
                                continue
                            yield dict(kind='int', widths=list(widths), byteord=bo, rk=[rk] * D,
                                       end=end, offsets=off)
    # mixed range kinds per parameter (D = 2): complete
    for widths in itertools.product(WIDTHS, repeat=2):
        for rk in itertools.product(RKINDS + ('npot_above',), repeat=2):
            if rk[0] == rk[1] and rk[0] != 'npot_above':
                continue
            for bo in BYTEORDS[:2]:
                yield dict(kind='int', widths=list(widths), byteord=bo, rk=list(rk))
    # many parameters (>= 10: the keyword numbers $P1B, $P10B, $P2B ... no longer sort like the parameters): every rotation of
    # the width ladder and of the range kinds, so that any permutation of per-parameter keywords moves a width or a mask
    for D in ((9, 10, 11, 13, 64, 90) if tier == 'quick' else (9, 10, 11, 12, 13, 20, 21, 23, 64, 90, 100, 101, 111)):      # (64 and more: events longer than 255 bytes)
        for s in range(len(WIDTHS)):
            widths = [WIDTHS[(s + i * (1 if D < 100 else 3)) % len(WIDTHS)] for i in range(D)]
            for bo in BYTEORDS:
                for r in range(len(RKINDS)):
                    yield dict(kind='int', widths=widths, byteord=bo, rk=[RKINDS[(r + i) % len(RKINDS)] for i in range(D)],
                               end=('last', 'onepast')[s % 2], offsets=('header', 'text')[r % 2], n=4)
        for dt in ('F', 'D'):
            for bo in BYTEORDS[:2]:
                yield dict(kind='float', datatype=dt, D=D, byteord=bo, n=3)
    if tier == 'thorough':
        for w in WIDTHS:
            for bo in BYTEORDS:
                for rk in RKINDS:
                    yield dict(kind='int', widths=[w] * 4, byteord=bo, rk=[rk] * 4)
                    yield dict(kind='int', widths=[w, 8, w, 16, 64][:5], byteord=bo, rk=[rk] * 5)
    # (B) deviation-bounded: remaining dimensions around representative base layouts
    dims = [('version', ['FCS3.0', 'FCS2.0', 'FCS3.1']),
            ('pad', [0, 3, 17]),
            ('n', [5, 0, 1, 2, 9]),
            ('delim', ['/', '|', '\x0c', '*']),
            ('end', ['last', 'onepast']),
            ('offsets', ['header', 'text']),
            ('stext', [None, 'after', 'before']),
            ('analysis', [None, 'header', 'text']),
            ('seg_order', [None] + SEG_ORDERS),
            ('via', ['path', 'handle-peeked', 'handle-twice', 'path-after-edit', 'handle-unlinked', 'handle-replaced', 'path-then-rewritten']),   # from an open file object that has been read from before; again after an in-place edit of the first load
            ('offset_format', ['zero', 'left', 'right'])]             # offsets in TEXT zero-padded or blank-padded within their fields
    k = 2 if tier == 'quick' else 3
    bases = [dict(kind='int', widths=[16], byteord='4,3,2,1', rk=['full']),
             dict(kind='int', widths=[8, 24], byteord='1,2,3,4', rk=['npot', 'full']),
             dict(kind='int', widths=[32, 32], byteord='2,1', rk=['smaller', 'full']),
             dict(kind='int', widths=[64, 40, 16], byteord='1,2', rk=['full', 'npot', 'smaller']),
             dict(kind='float', datatype='F', D=2, byteord='4,3,2,1'),
             dict(kind='float', datatype='D', D=3, byteord='1,2,3,4'),
             dict(kind='float', datatype='F', D=1, byteord='1,2'),
             dict(kind='float', datatype='D', D=1, byteord='2,1')]
    if tier == 'thorough':
        bases += [dict(kind='int', widths=[48, 56], byteord='4,3,2,1', rk=['npot', 'npot']),
                  dict(kind='int', widths=[8], byteord='1,2,3,4', rk=['smaller']),
                  dict(kind='float', datatype='F', D=4, byteord='1,2,3,4'),
                  dict(kind='float', datatype='D', D=2, byteord='4,3,2,1')]
    for base in bases:
        for dv in explore.deviations(dims, k):
            if dv['version'] == 'FCS2.0' and (dv['offsets'] == 'text' or dv['stext'] or dv['analysis'] == 'text'):
                continue
            c = dict(base)
            c.update(dv)
            yield c
    # offsets that fill all eight columns of a HEADER field (>= 10,000,000), and just below; FCS 3.x offsets beyond 99,999,999 can only
    # be written in TEXT (HEADER fields 0)
    for base in bases[:2] + bases[4:6]:
        for version in ('FCS2.0', 'FCS3.0', 'FCS3.1'):
            for off in (9999990, 10000000, 12345678):
                for an in (None, 'header'):
                    for segname in ('data',) + (('analysis',) if an else ()):
                        c = dict(base)
                        c.update(version=version, analysis=an, pad_before={segname: off}, n=2)
                        yield c
    # many events (a reader that works through the DATA segment in blocks has seams at multiples of its block size): counts around the
    # usual block sizes, on the byte-assembling path, the uniform path and the float path
    bigs = (65537, 131075) if tier == 'quick' else (10001, 32769, 65535, 65536, 65537, 100001, 131075, 262145, 1000001, 1048577)
    for nb in bigs:
        for base in (dict(kind='int', widths=[24, 24], byteord='4,3,2,1', rk=['full', 'full']),
                     dict(kind='int', widths=[8, 24], byteord='1,2,3,4', rk=['full', 'npot']),
                     dict(kind='int', widths=[32, 16], byteord='1,2,3,4', rk=['full', 'full']),
                     dict(kind='int', widths=[16, 16], byteord='2,1', rk=['full', 'smaller']),
                     dict(kind='float', datatype='F', D=2, byteord='1,2,3,4')):
            for off in ('header', 'text'):
                if off == 'text' and nb not in (65537, 1048577):
                    continue
                c = dict(base)
                c.update(nbig=nb, offsets=off)
                yield c
    # (C) refused layouts: each must raise
    refusals = [('mode', 'H'), ('mode', 'C'), ('mode', 'U'), ('datatype', 'A'),
                ('byteord', '4,3,2,1,0'), ('byteord', ''), ('bits', 10), ('bits', 12), ('bits', 72),
                ('bits', 4), ('bits', 20)]
    # every order of four bytes other than the two supported ones, and spellings of other lengths
    refusals += [('byteord', ','.join(p_)) for p_ in itertools.permutations('1234') if ','.join(p_) not in ('1,2,3,4', '4,3,2,1')]
    refusals += [('byteord', b_) for b_ in ('1,2,3', '3,2,1', '1', '2,1,3,4,5', '1,2,3,4,5,6,7,8', '8,7,6,5,4,3,2,1', '1,2,3,4,8,7,6,5', '1234', '1 2 3 4', '1,2,3,4,')]
    for r in refusals:
        for base in bases[:4]:
            for version in ('FCS3.0', 'FCS2.0'):
                if r[0] == 'bits' and len('%d' % r[1]) != len('%d' % base['widths'][0]):
                    continue
                c = dict(base)
                c.update(version=version, refuse=list(r))
                yield c


def bounds(tier, seed):
    return {'complete_product_D': [1, 2] if tier == 'quick' else [1, 2, 3],
            'many_parameters_D': [9, 10, 11, 13, 64, 90] if tier == 'quick' else [9, 10, 11, 12, 13, 20, 21, 23, 64, 90, 100, 101, 111],
            'deviation_bound': 2 if tier == 'quick' else 3,
            'many_events': [65537, 131075] if tier == 'quick' else [10001, 32769, 65535, 65536, 65537, 100001, 131075, 262145, 1000001, 1048577]}


def run_case(c):
    import FlowCal
    res = Result()
    lay = make_layout(c)
    path, info = write(dict(lay), 'c01.fcs')
    res.sample({'case': c, 'file_bytes': info['length']})
    refuse = 'refuse' in c
    try:
        with warnings.catch_warnings(record=True):
            warnings.simplefilter('always')
            via = c.get('via', 'path')
            if via == 'path-after-edit':
                first = FlowCal.io.FCSData(path)
                if first.size:
                    first[...] = first.max() if first.dtype.kind != 'f' else 7.0      # in-place edit of the first load (a caller's own business)
                    first[0, 0] = 0
                via = 'path'
            if via == 'path-then-rewritten':
                # loaded by path; then the same file is overwritten in place with another acquisition of the same layout (an instrument
                # re-exporting to the same name): what was loaded is a record of the file as it was
                f = FlowCal.io.FCSFile(path)
                data = f.data
                d = FlowCal.io.FCSData(path)
                other = dict(lay, events=[[(v ^ 0x55) % (2 ** min(w, 62)) for v, w in zip(row, lay['bits'])] for row in lay['events']])
                obuf, _ = fcsgen.build(dict(other))
                if len(obuf) == info['length']:
                    with open(path, 'r+b') as fo:
                        fo.write(obuf)
                        fo.flush()
                        os.fsync(fo.fileno())
                data = np.array(data)
                d = d.copy()
            elif via == 'path':
                f = FlowCal.io.FCSFile(path)
                data = f.data
                d = FlowCal.io.FCSData(path)
            else:
                with open(path, 'rb') as fh:
                    if via == 'handle-unlinked':
                        os.unlink(path)          # the open file object is all that is left of the file
                    elif via == 'handle-replaced':
                        # another acquisition has been written to the same path since the file was opened
                        other = dict(lay, events=[[(v + 1) % 251 for v in row] for row in lay['events']]) if lay['datatype'] == 'I' else dict(lay, byteord=lay['byteord'])
                        if lay['datatype'] != 'I':
                            other['events'] = [list(reversed(row)) for row in reversed(lay['events'])]
                        obuf, _ = fcsgen.build(dict(other))
                        with open(path + '.new', 'wb') as fo:
                            fo.write(obuf)
                        os.replace(path + '.new', path)
                    if via == 'handle-peeked':
                        fh.read(6)               # e.g. the caller looked at the version string first
                    f = FlowCal.io.FCSFile(fh)
                    data = np.array(f.data)
                    d = FlowCal.io.FCSData(fh)   # the same handle a second time
                    d = d.copy()
    except Exception as e:
        if refuse:
            res.ok('refused:' + c['refuse'][0])
        else:
            res.violation('load-raises:%s:%s' % (c.get('kind'), type(e).__name__),
                          'supported layout refused: %s: %s' % (type(e).__name__, e), c)
        return res
    if refuse:
        res.violation('unsupported-decoded:%s=%s' % tuple(c['refuse']),
                      'unsupported layout %s decoded into an array of shape %s' % (c['refuse'], data.shape), c)
        return res
    exp = fcsgen.expected_events(lay)
    N, D = len(exp), len(lay['bits'])
    want_kind = 'u' if lay['datatype'] == 'I' else 'f'
    for label, a in (('FCSFile.data', data), ('FCSData', d.view(np.ndarray))):
        if a.shape != (N, D):
            res.violation('shape:%s' % label, '%s shape %s, file has %d events x %d parameters' % (
                label, a.shape, N, D), c)
            return res
        if a.dtype.kind != want_kind:
            res.violation('kind:%s' % label, '%s dtype %s for $DATATYPE %s' % (label, a.dtype, lay['datatype']), c)
            return res
        got = as_bits(a)
        if got != exp:
            bad = [(i, j) for i in range(N) for j in range(D) if got[i][j] != exp[i][j]]
            i, j = bad[0]
            res.violation('value:%s:%s' % (label, c.get('kind')),
                          '%s[%d,%d] = %#x, file encodes %#x (%d cells differ); widths=%s byteord=%s ranges=%s' % (
                              label, i, j, got[i][j], exp[i][j], len(bad), lay['bits'], lay['byteord'],
                              lay.get('ranges')), c)
            return res
    names = tuple('CH%d' % (i + 1) for i in range(D))
    if tuple(d.channels) != names:
        res.violation('channels', 'channels %s, file order %s' % (d.channels, names), c)
        return res
    if c.get('stext') and d.text.get('SUPP2') != 'y' + lay['delim']:
        res.violation('stext-merge', 'supplemental keyword not merged: %r' % d.text.get('SUPP2'), c)
        return res
    if c.get('analysis') and d.analysis != {'AN1': 'v1'}:
        res.violation('analysis', 'analysis %r' % (d.analysis,), c)
        return res
    cls = '%s:%s:%s:%s' % (lay['datatype'], 'uniform' if len(set(lay['bits'])) == 1 and lay['bits'][0] in (8, 16, 32, 64) else 'mixed',
                           'BE' if lay['byteord'] in fcsgen.BIG else 'LE', lay['offsets'])
    res.ok(cls, nontrivial=N > 0)
    return res
