"""C16 -- truncated or inconsistent FCS files fail loudly instead of yielding other data (E3)."""
import os
import re
import warnings

import numpy as np

from .. import fcsgen, explore
from ..runner import Result, scratch
from . import c01

ID = 'C16'
LEVEL = 'fault_enumeration'
ENGINE = 'E3'
TECHNIQUE = ('fault enumeration on generated files of every layout class: truncation at EVERY byte offset 0..len-1 and every '
             'single-field corruption of a finite menu ($TOT, $PAR, each $PnB, HEADER and TEXT offsets x {-1,+1,x2,/2,0,beyond EOF}); '
             'outcome must be an exception or exactly the intact content; an independent strict reference reader decides whether a '
             'damaged file is itself a different well-formed file')
RULE = ('one evaluation = one damaged file loaded by the real reader; per generated file every cut point and every menu entry '
        'exactly once; non-trivial = the damage removes or changes at least one byte that the intact load reads (all cuts, all '
        'field changes that alter the field); distinct by construction')
ASSUMPTIONS = ['fcverif/fcsgen.refread is a strict reading of the FCS layout rules (sizes exact or one past; every declared byte present, one-byte end tolerance)',
               'a damaged file that the reference reader accepts is a different valid file and must load as the reference reads it',
               'damage confined to ANALYSIS may surface as the documented warning with an empty analysis dictionary']
CHUNK = 1


def file_family(tier):
    dims = [('version', ['FCS3.0', 'FCS2.0', 'FCS3.1']),
            ('pad', [0, 3]),
            ('end', ['last', 'onepast']),
            ('offsets', ['header', 'text']),
            ('stext', [None, 'after', 'before']),
            ('analysis', [None, 'header', 'text']),
            ('n', [3, 1, 0]),
            ('seg_order', [None] + c01.SEG_ORDERS)]
    bases = [dict(kind='int', widths=[16, 16], byteord='4,3,2,1', rk=['full', 'npot']),
             dict(kind='int', widths=[8, 24], byteord='1,2,3,4', rk=['full', 'full']),
             dict(kind='int', widths=[32], byteord='1,2', rk=['smaller']),
             dict(kind='float', datatype='F', D=2, byteord='4,3,2,1'),
             dict(kind='float', datatype='D', D=1, byteord='1,2,3,4'),
             dict(kind='int', widths=[8, 8], byteord='2,1', rk=['full', 'full']),
             dict(kind='int', widths=[16, 32, 8], byteord='1,2,3,4', rk=['full', 'full', 'full'], n=4, analysis='header')]   # 7-byte rows, bytes after DATA
    k = 1
    if tier == 'thorough':
        bases += [dict(kind='int', widths=[64, 40, 16], byteord='1,2,3,4', rk=['full', 'npot', 'smaller']),
                  dict(kind='int', widths=[8], byteord='4,3,2,1', rk=['full']),
                  dict(kind='float', datatype='F', D=3, byteord='1,2'),
                  dict(kind='int', widths=[48, 56], byteord='4,3,2,1', rk=['npot', 'npot'])]
        k = 2
    for base in bases:
        for dv in explore.deviations(dims, k):
            if dv['version'] == 'FCS2.0' and (dv['offsets'] == 'text' or dv['stext'] or dv['analysis'] == 'text'):
                continue
            c = dict(base)
            c.update(dv)
            yield c
    # FCS 2.0 files (no copy of the offsets in TEXT) with a gap between TEXT and DATA: a HEADER offset damaged to 0 cannot be made up for
    for base in bases[:4]:
        yield dict(base, version='FCS2.0', pad=7, _dev=2)
        yield dict(base, version='FCS2.0', pad=3, analysis='header', _dev=3)
    # seven-byte rows with bytes after DATA (a wrong event count may happen to match a wrong unit of the size check)
    for n in (4, 2, 5):
        for ver, an in (('FCS3.0', 'header'), ('FCS2.0', 'header'), ('FCS3.1', 'text')):
            yield dict(kind='int', widths=[16, 32, 8], byteord='1,2,3,4', rk=['full', 'full', 'full'], n=n, analysis=an, version=ver, _dev=0)
    yield dict(kind='int', widths=[24, 24, 24], byteord='4,3,2,1', rk=['full', 'npot', 'full'], n=4, analysis='header', stext='after', version='FCS3.0', _dev=0)
    # both trailing segments together, in both orders of offset placement
    for base in bases[:3]:
        for an in ('header', 'text'):
            c = dict(base)
            c.update(stext='after', analysis=an, version='FCS3.1')
            yield c
            for so in c01.SEG_ORDERS:
                yield dict(c, seg_order=so)


def cases(tier, seed):
    for c in file_family(tier):
        # every value of every offset field (0 .. file length + 2) on the base layouts and, in the thorough tier, on every layout within
        # one deviation; paired shifts of begin/end offsets on all files
        sweep = c.get('_dev', 9) == 0 or (c.get('stext') and c.get('analysis')) or (tier == 'thorough' and c.get('_dev', 9) <= 1)
        yield dict(kind='file', layout=c, sweep=bool(sweep))
    yield dict(kind='empty')
    # large files (DATA of a few hundred kilobytes, bytes after it): a size check that is only approximately right is exact on small files
    for lc in (dict(kind='int', widths=[24, 24, 24], byteord='4,3,2,1', rk=['full', 'full', 'full'], nbig=30000, analysis='header', version='FCS3.0'),
               dict(kind='int', widths=[8, 24], byteord='1,2,3,4', rk=['full', 'full'], nbig=50000, analysis='text', version='FCS3.1'),
               dict(kind='int', widths=[16, 16], byteord='1,2,3,4', rk=['full', 'full'], nbig=60000, analysis='header', version='FCS2.0'),
               dict(kind='float', datatype='F', D=2, byteord='4,3,2,1', nbig=40000, analysis='header', stext='after', version='FCS3.0'),
               dict(kind='float', datatype='D', D=3, byteord='1,2,3,4', nbig=20000, analysis='header', version='FCS3.1')):
        yield dict(kind='file', layout=lc, sweep=False, big=True)


def bounds(tier, seed):
    return {'files': len(list(file_family(tier))), 'cut_points': 'every offset 0..len-1 of every file',
            'field_menu': FIELD_OPS, 'deviation_bound_on_layout': 1 if tier == 'quick' else 2}


FIELD_OPS = ['-1', '+1', 'x2', '/2', '0', 'far', '-2', '-3', '-5', '+2', '+7']
# a rewritten $TOT / $PAR / $PnB of another digit count shifts the later segments: these offsets change as a consequence
SHIFTED = ('$BEGINDATA', '$ENDDATA', '$BEGINSTEXT', '$ENDSTEXT', '$BEGINANALYSIS', '$ENDANALYSIS')


def op_apply(v, op, far):
    if op.startswith('set:'):
        return int(op[4:])
    if op.startswith('shift:'):
        return v + int(op[6:])
    return {'-1': v - 1, '+1': v + 1, 'x2': v * 2, '/2': v // 2, '0': 0, 'far': far, '-2': v - 2, '-3': v - 3, '-5': v - 5, '+2': v + 2, '+7': v + 7}[op]


def load(path):
    """-> ('ok', text, analysis, events(list of bit patterns), warnings) | ('err', name)"""
    import FlowCal
    try:
        with warnings.catch_warnings(record=True) as w:
            warnings.simplefilter('always')
            d = FlowCal.io.FCSData(path)
            ev = c01.as_bits(d.view(np.ndarray)) if d.ndim == 2 else ['ndim %d' % d.ndim]
            return 'ok', dict(d.text), dict(d.analysis), ev, [str(x.message) for x in w], tuple(d.shape)
    except Exception as e:
        return ('err', type(e).__name__)


def _tol_equal(ref_text, got_text, damaged):
    """equality of keyword dictionaries under the tolerated ending: a value may have lost trailing delimiters"""
    try:
        dch = chr(damaged[int(damaged[10:18])])
    except Exception:
        dch = '/'
    return set(ref_text) == set(got_text) and all(ref_text[k].rstrip(dch) == got_text[k].rstrip(dch) for k in ref_text)


def load_file(path):
    """the same through the lower-level FCSFile object (FCSData adds its own keyword lookups, which may raise where FCSFile does not)"""
    import FlowCal
    try:
        with warnings.catch_warnings(record=True) as w:
            warnings.simplefilter('always')
            f = FlowCal.io.FCSFile(path)
            ev = c01.as_bits(np.asarray(f.data)) if np.asarray(f.data).ndim == 2 else ['ndim']
            return 'ok', dict(f.text), dict(f.analysis), ev, [str(x.message) for x in w], tuple(np.asarray(f.data).shape)
    except Exception as e:
        return ('err', type(e).__name__)


def judge(res, what, sig, damaged, intact, one, rewritten=()):
    """damaged: bytes; intact: load() result of the intact file"""
    path = os.path.join(scratch(), 'c16d.fcs')
    with open(path, 'wb') as f:
        f.write(damaged)
    if sig.startswith('cut:'):
        # the same damaged content handed over as an in-memory file object ("str or file-like"): the same alternatives, loud or intact
        try:
            import io as _io
            import FlowCal
            with warnings.catch_warnings():
                warnings.simplefilter('ignore')
                fb = FlowCal.io.FCSFile(_io.BytesIO(damaged))
                evb = c01.as_bits(np.asarray(fb.data)) if np.asarray(fb.data).ndim == 2 else None
            if evb != intact[3] or dict(fb.text) != dict(intact[1]):
                res.violation(sig + ':in-memory', '%s, handed over as an in-memory file object, loaded without error as events %s (shape %s) / other keywords' % (
                    what, str(evb)[:80], np.asarray(fb.data).shape), one)
                return
        except Exception:
            pass
    out = load(path)
    if out[0] == 'err':
        out = load_file(path)
        if out[0] == 'err':
            res.ok('raises:' + out[1], True)
            return
        what = what + ' [as FCSFile; FCSData raised]'
        sig = sig + ':FCSFile'
    _, text, analysis, ev, warns, shape = out
    itext = dict(intact[1])
    ctext = dict(text)
    for k in rewritten:
        itext.pop(k, None)
        ctext.pop(k, None)
    same_text = ctext == itext
    same_ev = ev == intact[3]
    same_an = analysis == intact[2]
    if same_text and same_ev and same_an:
        # a damaged event count, parameter count or bit width leaves a file whose keywords are NOT those of the intact file: loading it is
        # only in order when the damaged file is itself a consistent file (the reference reader accepts it) -- an inconsistent one is refused
        if rewritten and (rewritten[0] in ('$TOT', '$PAR') or re.match(r'^\$P\d+B$', rewritten[0])):
            try:
                fcsgen.refread(damaged)
            except fcsgen.RefError as e:
                res.violation(sig + ':inconsistent-loaded', '%s: the file no longer describes its own DATA segment (reference reader: %s) but was loaded without an error, '
                              'with the damaged keyword %s = %r' % (what, e, rewritten[0], text.get(rewritten[0])), one)
                return
        res.ok('intact-content', True)
        return
    # is the damaged file itself a well-formed file?
    try:
        rr = fcsgen.refread(damaged)
    except fcsgen.RefError as e:
        rr = None
        why = str(e)
    if rr is not None:
        if rr['text'] == text and rr['events'] == ev and (rr['analysis'] == analysis or
                                                          (rr['analysis_status'] == 'unparseable' and analysis == {})):
            res.ok('self-consistent-other-file', True)
            return
        if any('ill-formed TEXT segment' in w for w in warns):
            # the tolerant reading of TEXT-like segments (the C14-tolerated ending), which the loader announced
            try:
                rt = fcsgen.refread(damaged, tolerant=True)
            except fcsgen.RefError:
                rt = None
            if rt is not None and _tol_equal(rt['text'], text, damaged) and rt['events'] == ev and (_tol_equal(rt['analysis'], analysis, damaged) or (rt['analysis_status'] == 'unparseable' and analysis == {})):
                res.ok('self-consistent-other-file:tolerated-ending', True)
                return
        res.violation(sig + ':differs-from-reference-reading',
                      '%s: the damaged file is a well-formed file that reads as shape %dx%d but the loader returned shape %s / other content' % (
                          what, len(rr['events']), rr['D'], shape), one)
        return
    # the same question under the tolerant reading of TEXT-like segments (the C14-tolerated ending), which the loader must announce
    if any('ill-formed TEXT segment' in w for w in warns):
        try:
            rt = fcsgen.refread(damaged, tolerant=True)
        except fcsgen.RefError:
            rt = None
        if rt is not None and _tol_equal(rt['text'], text, damaged) and rt['events'] == ev and (_tol_equal(rt['analysis'], analysis, damaged) or (rt['analysis_status'] == 'unparseable' and analysis == {})):
            res.ok('self-consistent-other-file:tolerated-ending', True)
            return
    # documented degradations, each announced by its warning: (i) the C14-tolerated ending (a TEXT-like
    # segment ends in an even delimiter run): the last value may lose trailing delimiters, everything else
    # must be identical; (ii) an ANALYSIS segment that cannot be parsed gives an empty analysis dictionary
    text_ok, an_ok = same_text, same_an
    if not same_text and any('ill-formed TEXT segment' in w for w in warns):
        dch = chr(damaged[int(damaged[10:18])]) if len(damaged) > 58 else '/'
        text_ok = set(ctext) == set(itext) and all(ctext[k].rstrip(dch) == itext[k].rstrip(dch) for k in ctext)
    if not same_an and analysis == {} and any('ANALYSIS segment could not be parsed' in w for w in warns):
        an_ok = True
    if same_ev and text_ok and an_ok:
        res.ok('degraded-with-warning:%s%s' % ('' if same_text else 'tolerated-ending', '' if same_an else '+analysis-empty'), True)
        return
    parts = []
    if not same_ev:
        parts.append('events %s (shape %s) instead of %s' % (str(ev)[:80], shape, str(intact[3])[:80]))
    if not same_text:
        dk = sorted(set(ctext) ^ set(itext)) + sorted(k for k in set(ctext) & set(itext) if ctext[k] != itext[k])
        parts.append('TEXT keywords differ: %s' % dk[:6])
    if not same_an:
        parts.append('ANALYSIS %r instead of %r' % (analysis, intact[2]))
    res.violation(sig, '%s loaded without error (%d warnings) but returned %s; reference reader: %s' % (
        what, len(warns), '; '.join(parts), why), one)


def region(info, k):
    """name of the segment byte k falls in (for signatures)"""
    if k < 58:
        return 'HEADER'
    if info['text_begin'] <= k <= info['text_end']:
        return 'TEXT'
    if info['data_len'] and info['data_begin'] <= k < info['data_begin'] + info['data_len']:
        return 'DATA'
    if info['stext'][0] and info['stext'][0] <= k <= info['stext'][1]:
        return 'STEXT'
    if info['analysis'][0] and info['analysis'][0] <= k <= info['analysis'][1]:
        return 'ANALYSIS'
    return 'PAD'


def patch_field(buf, info, field, op, lay):
    """returns (damaged bytes, rewritten keyword names) or None when the op leaves the field unchanged"""
    far = len(buf) * 3 + 1000
    d = lay.get('delim', '/')
    hdr = {'h_text_begin': 10, 'h_text_end': 18, 'h_data_begin': 26, 'h_data_end': 34}
    if field in hdr:
        o = hdr[field]
        v = int(buf[o:o + 8])
        nv = op_apply(v, op, far)
        if nv == v or nv < 0:
            return None
        return buf[:o] + ('%8d' % nv).encode() + buf[o + 8:], ()
    if field in ('$BEGINDATA', '$ENDDATA', '$BEGINSTEXT', '$ENDSTEXT', '$BEGINANALYSIS', '$ENDANALYSIS'):
        m = re.search(re.escape((d + field + d).encode()) + rb'(\d{8})', buf)
        if not m:
            return None
        v = int(m.group(1))
        nv = op_apply(v, op, far)
        if nv == v or nv < 0 or nv > 99999999:
            return None
        return buf[:m.start(1)] + ('%08d' % nv).encode() + buf[m.end(1):], (field,)
    # $TOT, $PAR, $PnB: rebuild the file with the declared value overridden (offsets stay consistent)
    lay2 = dict(lay)
    if field == '$TOT':
        v = len(lay['events'])
        nv = op_apply(v, op, 10 ** 7)
        if nv == v or nv < 0:
            return None
        lay2['tot'] = nv
    elif field == '$PAR':
        v = len(lay['bits'])
        nv = op_apply(v, op, 1000)
        if nv == v or nv < 0:
            return None
        lay2['par'] = nv
    else:
        j = int(field[2:-1]) - 1
        v = lay['bits'][j]
        nv = {'-1': v - 8, '+1': v + 8, 'x2': v * 2, '/2': v // 2, '0': 0, 'far': 4096}.get(op)
        if nv is None:
            return None
        if nv == v:
            return None
        return rebuild_with_declared_bits(dict(lay), j, nv), (field,) + SHIFTED
    b2, _ = fcsgen.build(lay2)
    return b2, (field,) + SHIFTED


def rebuild_with_declared_bits(lay, j, nv):
    """write the same DATA bytes but declare another width for parameter j"""
    real = list(lay['bits'])
    data = fcsgen.encode_events(lay)
    lay2 = dict(lay)
    lay2['bits'] = list(real)
    lay2['bits'][j] = nv
    # build with fake widths but keep the true byte count by temporarily encoding events of matching size
    save = fcsgen.encode_events
    try:
        fcsgen.encode_events = lambda _l: data
        b, _ = fcsgen.build(lay2)
    finally:
        fcsgen.encode_events = save
    return b


def run_case(c):
    res = Result()
    if c['kind'] == 'empty':
        p = os.path.join(scratch(), 'c16e.fcs')
        for content, name in ((b'', 'empty'), (b'FCS3.0', 'six-bytes'), (b' ' * 58, 'blank-header')):
            with open(p, 'wb') as f:
                f.write(content)
            out = load(p)
            if out[0] == 'err':
                res.ok('raises:' + out[1], True)
            else:
                res.violation('degenerate:' + name, '%s file loaded without error' % name, c)
        res.sample({'files': ['empty', 'six-bytes', 'blank-header']})
        return res
    lc = c['layout']
    lay = c01.make_layout(lc)
    buf, info = fcsgen.build(dict(lay))
    p = os.path.join(scratch(), 'c16i.fcs')
    with open(p, 'wb') as f:
        f.write(buf)
    intact = load(p)
    if intact[0] != 'ok':
        res.violation('intact-file-refused:%s' % intact[1], 'the intact generated file (layout %r) is refused with %s, so nothing can be said about its damaged versions' % (lc, intact[1]), dict(c))
        return res
    rr = fcsgen.refread(buf)
    assert rr['events'] == intact[3] and rr['text'] == intact[1] and rr['analysis'] == intact[2], 'reference reader disagrees on intact file'
    fault = c.get('fault')
    # truncation at every byte offset
    cuts = range(len(buf)) if fault is None else ([fault[1]] if fault[0] == 'cut' else [])
    if c.get('big') and fault is None:
        # large file: cuts on a coarse grid plus every offset within 3 bytes of a segment boundary
        marks = [58, info['text_begin'], info['text_end'], info['data_begin'], info['data_begin'] + info['data_len'], info['stext'][0], info['stext'][1],
                 info['analysis'][0], info['analysis'][1], len(buf)]
        cuts = sorted(set(list(range(0, len(buf), 7919)) + [k_ for m_ in marks if m_ for k_ in range(m_ - 3, m_ + 4) if 0 <= k_ < len(buf)]))
    for k in cuts:
        one = dict(kind='file', layout=lc, fault=['cut', k])
        reg = region(info, k)
        judge(res, 'file of %d bytes cut to %d bytes (inside %s)' % (len(buf), k, reg), 'cut:' + reg, buf[:k], intact, one)
    res.counters['cut_points'] += len(cuts)
    # field corruption
    fields = ['$TOT', '$PAR'] + ['$P%dB' % (j + 1) for j in range(len(lay['bits']))] + \
             ['h_text_begin', 'h_text_end', 'h_data_begin', 'h_data_end']
    if lay['version'] != 'FCS2.0':
        fields += ['$BEGINDATA', '$ENDDATA', '$BEGINSTEXT', '$ENDSTEXT', '$BEGINANALYSIS', '$ENDANALYSIS']
    for field in fields:
        for op in FIELD_OPS + (['shift:%d' % (sg * k_) for k_ in range(2, 13) for sg in (1, -1)] if c.get('big') and 'data' in field.lower() else []):
            if fault is not None and fault != ['field', field, op]:
                continue
            r = patch_field(buf, info, field, op, lay)
            if r is None:
                continue
            dmg, rew = r
            one = dict(kind='file', layout=lc, fault=['field', field, op])
            fname = re.sub(r'\d+', 'n', field)
            judge(res, 'field %s changed by %s' % (field, op), 'field:%s:%s' % (fname, op if not op.startswith('shift:') else 'shift'), dmg, intact, one, rewritten=rew)
            res.counters['field_corruptions'] += 1
    offset_fields = ['h_text_begin', 'h_text_end', 'h_data_begin', 'h_data_end']
    if lay['version'] != 'FCS2.0':
        offset_fields += ['$BEGINDATA', '$ENDDATA', '$BEGINSTEXT', '$ENDSTEXT', '$BEGINANALYSIS', '$ENDANALYSIS']
    # (b) paired shifts: both offsets of one segment moved by the same amount (a stale or displaced copy of the offsets)
    rowbytes = max(1, sum(lay['bits']) // 8)
    pairs = [('h_text_begin', 'h_text_end'), ('h_data_begin', 'h_data_end')]
    if lay['version'] != 'FCS2.0':
        pairs += [('$BEGINDATA', '$ENDDATA'), ('$BEGINSTEXT', '$ENDSTEXT'), ('$BEGINANALYSIS', '$ENDANALYSIS')]
    for fa, fb in pairs:
        for delta in (-rowbytes, rowbytes, -1, 1, -2, 2, 16, -16, 2 * rowbytes):
            op = 'shift:%d' % delta
            if fault is not None and fault != ['pair', fa, fb, op]:
                continue
            r1 = patch_field(buf, info, fa, op, lay)
            if r1 is None:
                continue
            r2 = patch_field(r1[0], info, fb, op, lay)
            if r2 is None:
                continue
            one = dict(kind='file', layout=lc, fault=['pair', fa, fb, op])
            judge(res, 'fields %s and %s both shifted by %d' % (fa, fb, delta), 'pair:%s:%s' % (re.sub(r'\d+', 'n', fa), 'row' if abs(delta) % rowbytes == 0 else 'bytes'),
                  r2[0], intact, one, rewritten=tuple(set(r1[1]) | set(r2[1])))
            res.counters['paired_shifts'] += 1
    # (b2) every small value of the declared counts ($TOT up to four times the true count + 8, $PAR up to three times + 3)
    if c.get('sweep') or (fault is not None and fault[0] == 'count'):
        for field, top in (('$TOT', 4 * len(lay['events']) + 9), ('$PAR', 3 * len(lay['bits']) + 4)):
            for v in range(0, top):
                op = 'set:%d' % v
                if fault is not None and fault != ['count', field, v]:
                    continue
                r = patch_field(buf, info, field, op, lay)
                if r is None:
                    continue
                one = dict(kind='file', layout=lc, fault=['count', field, v])
                judge(res, 'field %s set to %d' % (field, v), 'count:%s' % field, r[0], intact, one, rewritten=r[1])
                res.counters['count_values_swept'] += 1
    # (c) every value of every offset field
    if c.get('sweep') or (fault is not None and fault[0] == 'set'):
        for field in offset_fields:
            for v in range(0, len(buf) + 3):
                op = 'set:%d' % v
                if fault is not None and fault != ['set', field, v]:
                    continue
                r = patch_field(buf, info, field, op, lay)
                if r is None:
                    continue
                one = dict(kind='file', layout=lc, fault=['set', field, v])
                judge(res, 'field %s set to %d' % (field, v), 'set:%s' % re.sub(r'\d+', 'n', field), r[0], intact, one, rewritten=r[1])
                res.counters['offset_values_swept'] += 1
    res.sample({'layout': lc, 'file_bytes': len(buf), 'cut_points': len(buf), 'fields': fields, 'offset_sweep': bool(c.get('sweep'))})
    return res
