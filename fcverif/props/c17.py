"""C17 -- acquisition metadata reflects the file's keywords and never blocks loading (E1)."""
import datetime
import itertools
import os
import warnings

import numpy as np

from .. import fcsgen
from ..runner import Result, scratch

ID = 'C17'
LEVEL = 'exploration'
TECHNIQUE = ('exhaustive enumeration of the presence lattice of the optional keywords ($TIMESTEP, TIMETICKS, $BTIM, $ETIM, $DATE, '
             '$PnV, $PnG, $PnS, BD$WORDn, CytekPnnG) x CREATOR x time-channel naming, of all time x time x date format '
             'combinations, and of ill-formed values for one or two keywords over the lattice of the others; every derived '
             'attribute compared with a reference derivation written from the documentation')
RULE = ('one evaluation = one generated file loaded and all attributes compared; every lattice point / format combination / '
        'damage assignment exactly once; non-trivial = at least one optional keyword present or damaged; distinct by construction')
ASSUMPTIONS = ['date formats are tried in the documented order (dd-mmm-yy, dd-mmm-yyyy, yy-mmm-dd, yyyy-mmm-dd)',
               'an unparseable $TIMESTEP / TIMETICKS counts as "a time keyword that is unparseable" and must give an absent time step',
               'files have >= 2 events and an increasing time channel (0 events / wrap-around of unsigned subtraction are outside this property)']
CHUNK = 16

OPT = ['$TIMESTEP', 'TIMETICKS', '$BTIM', '$ETIM', '$DATE', 'PnV', 'PnG', 'PnS', 'BDWORD', 'CYTEK']
CREATORS = [None, 'CellQuest Pro 5.2', 'FlowJoCollectorsEdition 7.5', 'OtherSoft 1.0', 'BD CellQuest Pro 6.0', 'Mac FlowJoCollectorsEdition 7']
TIMECH = [None, 'Time', 'TIME', 'time', 'two']
GOOD = {'$TIMESTEP': '0.01', 'TIMETICKS': '200', '$BTIM': '10:05:07', '$ETIM': '10:06:10.25', '$DATE': '03-OCT-2023'}
TIMEFMT = ['10:05:07', '10:05:07:30', '10:05:07.25', '23:59:59:59', '00:00:00.0', '7:5:3']
DATEFMT = [None, '03-OCT-23', '03-Oct-2023', '23-Oct-03', '2023-Oct-03', '31-dec-99', '1-Jan-2001']
BAD_TIME = ['abc', '10:05', '1:2:3:4:5', '25:61:61', '10:05:07:99', ' ', '10:05:xx', '10:05:07:zz', '10:05:07.', '-1:00:00',
            '10:05:07:1e999', '10:05:07:inf', '10:05:07:-Infinity', '10:05:07:nan', '10:05:07:-3', '10:05:07:60', '1e1:05:07', '10:05:07.1e3',
            '20:15.5:43', '20.5:15:43', '1.5:2:3', '12:30.25:10', '10.0:05:07', '10:05.:07']
BAD_DATE = ['abc', '32-OCT-2023', '03-OKT-2023', ' ', '2023/10/03', '03-10-2023']
BAD_NUM = ['abc', ' ', '1,2', '1.2.3', '0x10']
GOOD_NUM = ['1.0e+01', '2E0', '5e-1', '+2.5', ' 4.0', '4.0 ', '1e1', '.5', '5.', '007', '1.600000e+01', '0', '0.0', '-3.5', '1E-3', '12345678.9']
NCH = 3


def make(c):
    """-> layout, keyword dict (what the file says)"""
    NCH = c.get('nch', 3)
    names = ['FSC', 'FL1', 'FL2'] + ['FL%d' % (k + 3) for k in range(NCH - 3)]
    tc = c.get('timech')
    if tc == 'two':
        names = ['Time', 'FL1', 'TIME']
    elif isinstance(tc, (list, tuple)):
        names = list(tc)
    elif tc:
        names = ['FSC', 'FL1', tc]
    present = set(c.get('present', ()))
    val = dict(c.get('values', {}))
    extra = []
    kw = {}

    def add(k, v):
        extra.append((k, v))
        kw[k] = v
    for k in ('$TIMESTEP', 'TIMETICKS', '$BTIM', '$ETIM', '$DATE'):
        if k in present:
            add(k, val.get(k, GOOD[k]))
    if c.get('creator'):
        add('CREATOR', c['creator'])
    mask = c.get('chanmask') or {}       # group -> channel positions that carry the keyword (default: every channel)

    def has(g, j):
        return g in present and (g not in mask or j in mask[g])
    for j in range(NCH):
        n = j + 1
        if has('PnV', j):
            add('$P%dV' % n, val.get('$P%dV' % n, str(100 + 50.5 * j)))
        if has('PnG', j):
            add('$P%dG' % n, val.get('$P%dG' % n, str(1.5 * n)))
        if has('PnS', j):
            add('$P%dS' % n, 'label %d' % n)
        if has('BDWORD', j):
            add('BD$WORD%d' % (12 + n), val.get('BD$WORD%d' % (12 + n), str(400 + n)))
        if has('CYTEK', j):
            add('CytekP%02dG' % n, val.get('CytekP%02dG' % n, str(2.25 * n)))
    pne = (['0,0', '4,1', '3.5,0'] + ['4.0,0.0', '2,0.00', '0.0,0.0', '3,1.0', '4,0'] * 5)[:NCH]
    ranges = ([1024, 256, 1000] + [1024, 4096, 512] * 8)[:NCH]
    events = [([5, 1, 10] + [3] * 30)[:NCH], ([900, 200, 20] + [4] * 30)[:NCH], ([17, 255, 70] + [5] * 30)[:NCH]]
    tv = c.get('timevals')
    if tv == 'same-tick':            # all events within one time tick: elapsed time 0
        for e in events:
            e[2] = 33
    elif tv == 'single-event':
        events = events[:1]
    elif tv == 'first-equals-last':
        events[0][2], events[1][2], events[2][2] = 40, 90, 40
    lay = dict(version=c.get('version', 'FCS3.0'), datatype='I', byteord='4,3,2,1', bits=[16] * NCH, ranges=ranges,
               names=names, pne=pne, events=events, extra=extra)
    return lay, kw, names, pne, ranges, events


def ref_time(s):
    """documented formats: hh:mm:ss, hh:mm:ss:tt (1/60 s), hh:mm:ss.cc (fraction of a second)"""
    if s is None:
        return None
    parts = s.split(':')
    try:
        if len(parts) == 3:
            hh, mm = parts[0], parts[1]
            if '.' in parts[2]:
                ss, frac = parts[2].split('.', 1)
                if not (1 <= len(frac) <= 6 and frac.isdigit()):
                    return None
                us = int(frac.ljust(6, '0'))
            else:
                ss, us = parts[2], 0
        elif len(parts) == 4:
            hh, mm, ss = parts[:3]
            us = int(float(parts[3]) * 1e6 / 60)
            if not 0 <= us <= 999999:
                return None
        else:
            return None
        for x in (hh, mm, ss):
            if not (1 <= len(x) <= 2 and x.isdigit()):
                return None
        return datetime.time(int(hh), int(mm), int(ss), us)
    except Exception:
        return None


MONTHS = ['jan', 'feb', 'mar', 'apr', 'may', 'jun', 'jul', 'aug', 'sep', 'oct', 'nov', 'dec']


def ref_date(s):
    if s is None:
        return None
    p = s.split('-')
    if len(p) != 3 or p[1].lower() not in MONTHS:
        return None
    mon = MONTHS.index(p[1].lower()) + 1

    def num(x, lens):
        return int(x) if x.isdigit() and len(x) in lens else None

    def yy(x):
        v = num(x, (2,))
        if v is None:
            return None
        return 2000 + v if v < 69 else 1900 + v
    for day, year in ((num(p[0], (1, 2)), yy(p[2])), (num(p[0], (1, 2)), num(p[2], (4,))),
                      (num(p[2], (1, 2)), yy(p[0])), (num(p[2], (1, 2)), num(p[0], (4,)))):
        if day is None or year is None:
            continue
        try:
            return datetime.datetime(year, mon, day)
        except ValueError:
            continue
    return None


def ref_float(s):
    if s is None:
        return None
    try:
        return float(s)
    except ValueError:
        return None


def metaref(kw, names, pne, ranges, events):
    NCH = len(names)
    out = {}
    if '$TIMESTEP' in kw:
        out['time_step'] = ref_float(kw['$TIMESTEP'])
    elif 'TIMETICKS' in kw:
        v = ref_float(kw['TIMETICKS'])
        out['time_step'] = None if v is None else v / 1000.
    else:
        out['time_step'] = None
    date = ref_date(kw.get('$DATE'))
    for attr, k in (('acquisition_start_time', '$BTIM'), ('acquisition_end_time', '$ETIM')):
        t = ref_time(kw.get(k))
        if t is not None and date is not None:
            t = datetime.datetime.combine(date, t)
        out[attr] = t
    out['channels'] = tuple(names)
    out['channel_labels'] = [kw.get('$P%dS' % (j + 1)) for j in range(NCH)]
    out['range'] = [[0.0, float(r - 1)] for r in ranges]
    out['resolution'] = list(ranges)
    at = []
    for e in pne:
        a, b = [float(x) for x in e.split(',')]
        if a != 0 and b == 0:
            b = 1.0
        at.append((a, b))
    out['amplification_type'] = at
    creator = kw.get('CREATOR') or ''
    dv, ag = [], []
    for j in range(NCH):
        n = j + 1
        v = kw.get('$P%dV' % n)
        if v is None and 'CellQuest Pro' in creator:
            v = kw.get('BD$WORD%d' % (12 + n))
        dv.append(ref_float(v))
        g = kw.get('$P%dG' % n)
        if g is None and 'FlowJoCollectorsEdition' in creator:
            g = kw.get('CytekP%02dG' % n)
        ag.append(ref_float(g))
    out['detector_voltage'] = dv
    out['amplifier_gain'] = ag
    out['data_type'] = 'I'
    tcs = [j for j, nme in enumerate(names) if nme.lower() == 'time']
    if len(tcs) > 1:
        out['acquisition_time'] = 'ANY'
    elif len(tcs) == 1 and out['time_step'] is not None:
        out['acquisition_time'] = (events[-1][tcs[0]] - events[0][tcs[0]]) * out['time_step']
    elif out['acquisition_start_time'] is not None and out['acquisition_end_time'] is not None:
        a, b = out['acquisition_start_time'], out['acquisition_end_time']
        if isinstance(a, datetime.time):
            a = datetime.datetime.combine(datetime.date(2000, 1, 1), a)
            b = datetime.datetime.combine(datetime.date(2000, 1, 1), b)
        out['acquisition_time'] = (b - a).total_seconds()
    else:
        out['acquisition_time'] = None
    return out


def lattice():
    for bits in itertools.product([False, True], repeat=len(OPT)):
        yield [k for k, b in zip(OPT, bits) if b]


def cases(tier, seed):
    versions = ['FCS3.0'] if tier == 'quick' else ['FCS3.0', 'FCS2.0', 'FCS3.1']
    # (A) presence lattice x creators x time channel
    for present in lattice():
        for cr in CREATORS:
            for tc in TIMECH:
                for v in versions:
                    yield dict(kind='presence', present=present, creator=cr, timech=tc, version=v)
    # (A2) channel counts of ten and more (two-digit vendor keywords) x per-channel keyword groups x creators
    for nch in (9, 10, 11, 23):
        for bits in itertools.product([False, True], repeat=5):
            present = [k for k, b in zip(['PnV', 'PnG', 'PnS', 'BDWORD', 'CYTEK'], bits) if b]
            for cr in CREATORS:
                yield dict(kind='manychannels', nch=nch, present=present, creator=cr, timech=None)
    # (A3) time channels whose first and last event carry the same value (elapsed time zero), with start / end times present
    for tv in ('same-tick', 'single-event', 'first-equals-last'):
        for present in (['$TIMESTEP', '$BTIM', '$ETIM'], ['$TIMESTEP', '$BTIM', '$ETIM', '$DATE'], ['TIMETICKS', '$BTIM', '$ETIM'], ['$TIMESTEP'], ['$BTIM', '$ETIM']):
            for tc in ('Time', 'TIME', None):
                yield dict(kind='elapsed-zero', present=present, creator=None, timech=tc, timevals=tv)
    # (A3) the per-channel keywords present for some channels only: every subset of four channels, per keyword group and for
    # the standard keyword together with its vendor fallback
    for g, cr in (('PnV', None), ('PnG', None), ('PnS', None), ('BDWORD', CREATORS[1]), ('CYTEK', CREATORS[2])):
        for m in itertools.product([0, 1], repeat=4):
            sel = [j for j in range(4) if m[j]]
            yield dict(kind='perchannel', present=[g], chanmask={g: sel}, creator=cr, timech=None, nch=4)
    for g, fb, cr in (('PnV', 'BDWORD', CREATORS[1]), ('PnG', 'CYTEK', CREATORS[2])):
        for m in itertools.product([0, 1, 2, 3], repeat=3):      # per channel: neither, standard, fallback, both
            yield dict(kind='perchannel', present=[g, fb], creator=cr, timech='Time', nch=3,
                       chanmask={g: [j for j in range(3) if m[j] in (1, 3)], fb: [j for j in range(3) if m[j] in (2, 3)]})
    # (A4) channels whose name merely contains "time" are measurements, not the time channel
    for odd in ('Lifetime-A', 'TimeOfFlight', 'Dwell Time', 'timer', 'Time ', ' time', 'Time-H', 'TIME2', 'Ti me'):
        for names in (['FSC', 'FL1', odd], ['Time', 'FL1', odd], [odd, 'FL1', 'TIME']):
            for r in range(0, 6):
                for present in itertools.combinations(['$TIMESTEP', 'TIMETICKS', '$BTIM', '$ETIM', '$DATE'], r):
                    if r in (2, 3) and '$TIMESTEP' not in present and 'TIMETICKS' not in present and tier == 'quick':
                        continue
                    yield dict(kind='timenames', present=list(present), creator=None, timech=names)
    # (A5) two files loaded one after the other in the same process: what the first file says must not influence how the second is read
    dates = [x for x in DATEFMT if x] + ['99-Dec-24', '07-Aug-09', '45-Jan-30', '12-Mar-11', '2009-Aug-07']
    for i, da in enumerate(dates):
        yield dict(kind='sequence', first=[{'$DATE': da, '$BTIM': TIMEFMT[i % len(TIMEFMT)], '$ETIM': '23:00:00'}],
                   then=[{'$DATE': db, '$BTIM': '10:05:07', '$ETIM': TIMEFMT[j % len(TIMEFMT)]} for j, db in enumerate(dates)])
    # (B) formats
    for bt in TIMEFMT:
        for et in TIMEFMT:
            for dt in DATEFMT:
                for tc in (None, 'Time'):
                    pres = ['$BTIM', '$ETIM'] + (['$DATE'] if dt else [])
                    vals = {'$BTIM': bt, '$ETIM': et}
                    if dt:
                        vals['$DATE'] = dt
                    yield dict(kind='formats', present=pres, values=vals, timech=tc, creator=None)
    # (B2) every fractional-second value of both standard formats: tt = 0..59 (1/60 s, one and two digits), cc = 00..99 and c = 0..9
    fr = ['10:05:07:%d' % t for t in range(60)] + ['10:05:07:%02d' % t for t in range(10)] + \
         ['10:05:07.%02d' % t for t in range(100)] + ['10:05:07.%d' % t for t in range(10)] + ['10:05:07.123456', '10:05:07:59.5', '10:05:07:60']
    for f in fr:
        for dt in (None, '03-Oct-2023'):
            pres = ['$BTIM', '$ETIM'] + (['$DATE'] if dt else [])
            vals = {'$BTIM': f, '$ETIM': '10:05:09'}
            if dt:
                vals['$DATE'] = dt
            yield dict(kind='formats', present=pres, values=vals, timech=None, creator=None)
    # (C) ill-formed values: one keyword over the lattice of the others; two keywords at a time on selected lattice points
    menus = {'$TIMESTEP': BAD_NUM, 'TIMETICKS': BAD_NUM, '$BTIM': BAD_TIME, '$ETIM': BAD_TIME, '$DATE': BAD_DATE,
             '$P2V': BAD_NUM, '$P2G': BAD_NUM, 'BD$WORD14': BAD_NUM, 'CytekP02G': BAD_NUM}
    group = {'$P2V': 'PnV', '$P2G': 'PnG', 'BD$WORD14': 'BDWORD', 'CytekP02G': 'CYTEK'}
    for kwd, menu in menus.items():
        g = group.get(kwd, kwd)
        others = [k for k in OPT if k != g]
        for present in lattice():
            if g not in present:
                continue
            rest = [k for k in present if k != g]
            if tier == 'quick':
                # quick: the keywords that interact with the damaged one range freely, the rest all-absent or all-present
                inter = {'$TIMESTEP': ['TIMETICKS'], 'TIMETICKS': ['$TIMESTEP'], '$BTIM': ['$ETIM', '$DATE'], '$ETIM': ['$BTIM', '$DATE'],
                         '$DATE': ['$BTIM', '$ETIM'], 'PnV': ['BDWORD'], 'BDWORD': ['PnV'], 'PnG': ['CYTEK'], 'CYTEK': ['PnG']}[g]
                non = [k for k in others if k not in inter]
                have = [k for k in non if k in rest]
                if len(have) not in (0, len(non)):
                    continue
            for bad in menu:
                for cr in ([CREATORS[1]] if g == 'BDWORD' else [CREATORS[2]] if g == 'CYTEK' else [None, CREATORS[1]]):
                    for tc in (None, 'Time'):
                        yield dict(kind='damage', present=present, values={kwd: bad}, creator=cr, timech=tc)
    # (C0) well-formed numbers in every spelling a floating-point field may have (exponents, signs, surrounding blanks, no leading or
    # trailing digit): read as that number
    for kwd in menus:
        g = group.get(kwd, kwd)
        for good in GOOD_NUM:
            for cr in ([CREATORS[1]] if g == 'BDWORD' else [CREATORS[2]] if g == 'CYTEK' else [None]):
                for tc in ((None, 'Time') if g in ('$TIMESTEP', 'TIMETICKS') else (None,)):
                    for pres in ([g], list(OPT)):
                        if g in ('BDWORD', 'CYTEK') and len(pres) > 1:
                            pres = [k for k in pres if k not in ('PnV', 'PnG')]          # the fall-back keywords count only without the standard ones
                        yield dict(kind='numformats', present=pres, values={kwd: good}, creator=cr, timech=tc)
    pairs = [('$BTIM', '$ETIM'), ('$BTIM', '$DATE'), ('$TIMESTEP', '$BTIM'), ('$TIMESTEP', 'TIMETICKS'), ('$P2V', '$P2G'),
             ('$DATE', '$ETIM'), ('$TIMESTEP', '$DATE')]
    for a, b in pairs:
        for ba in menus[a]:
            for bb in menus[b]:
                for tc in (None, 'Time'):
                    for full in (False, True):
                        pres = list(OPT) if full else [group.get(a, a), group.get(b, b)]
                        yield dict(kind='damage2', present=pres, values={a: ba, b: bb}, creator=CREATORS[1], timech=tc)


def bounds(tier, seed):
    return {'presence_lattice': '2^%d x %d creators x %d time-channel namings' % (len(OPT), len(CREATORS), len(TIMECH)),
            'versions': 1 if tier == 'quick' else 3, 'damaged_keywords_at_a_time': 2}


def eq(a, b):
    if isinstance(a, float) and isinstance(b, float):
        return a == b or abs(a - b) <= 1e-12 * max(abs(a), abs(b))
    if isinstance(a, (list, tuple)) and isinstance(b, (list, tuple)):
        return len(a) == len(b) and all(eq(x, y) for x, y in zip(a, b))
    return a == b and type(a) == type(b) or (a == b and isinstance(a, (int, float)) and isinstance(b, (int, float)))


def run_case(c):
    import FlowCal
    if c['kind'] == 'sequence':
        res = Result()
        for first in c['first']:
            for then in c['then']:
                for vals in (first, then):
                    sub = run_case(dict(kind='sequence-step', present=sorted(vals), values=dict(vals), creator=None, timech=None))
                    if vals is then:
                        for v in sub.violations:
                            res.violations.append({'sig': 'sequence:' + v['sig'], 'msg': 'after a file with %r was loaded in the same process: %s' % (first, v['msg']),
                                                   'case': dict(kind='sequence', first=[first], then=[then])})
                        res.n += sub.n
                        res.nontrivial += sub.nontrivial
                        res.classes.update(sub.classes)
        res.sample({'first file': c['first'][0], 'then': len(c['then'])})
        return res
    res = Result()
    lay, kw, names, pne, ranges, events = make(c)
    buf, info = fcsgen.build(lay)
    p = os.path.join(scratch(), 'c17.fcs')
    with open(p, 'wb') as f:
        f.write(buf)
    exp = metaref(kw, names, pne, ranges, events)
    sigk = c['kind'] + ':' + ','.join(sorted(c.get('values', {})))
    res.sample({'case': c})
    try:
        with warnings.catch_warnings():
            warnings.simplefilter('ignore')
            d = FlowCal.io.FCSData(p)
    except Exception as e:
        res.violation('load-raises:%s:%s' % (sigk, type(e).__name__),
                      'loading raised %s: %s; optional keywords in the file: %r' % (type(e).__name__, e, kw), c)
        return res
    bad = []
    # (an unparseable $TIMESTEP next to a parseable legacy TIMETICKS: "a ... time ... keyword that is ... unparseable yields an absent
    # attribute" -- the standard keyword is the one that counts when it is present, so the time step is absent; an earlier version of this
    # check also accepted a fall-back to the legacy keyword, which the property's wording does not support)
    for attr in ('time_step', 'acquisition_start_time', 'acquisition_end_time', 'channels', 'data_type'):
        got = getattr(d, attr)
        if not eq(got, exp[attr]):
            bad.append((attr, got, exp[attr]))
    for attr in ('channel_labels', 'range', 'resolution', 'amplification_type', 'detector_voltage', 'amplifier_gain'):
        got = getattr(d, attr)()
        if not eq(list(got), list(exp[attr])):
            bad.append((attr, got, exp[attr]))
        # by name and by position
        for j, nme in enumerate(names):
            if names.count(nme) == 1:
                g1, g2 = getattr(d, attr)(nme), getattr(d, attr)(j)
                if not (eq(g1, exp[attr][j]) and eq(g2, exp[attr][j])):
                    bad.append((attr + '(%r)' % nme, g1, exp[attr][j]))
    for attr, got, want in bad[:1]:
        res.violation('attr:%s:%s' % (attr.split('(')[0], sigk), '%s is %r, the keywords say %r; optional keywords: %r' % (attr, got, want, kw), c)
    if bad:
        return res
    try:
        at = d.acquisition_time
    except Exception as e:
        if exp['acquisition_time'] == 'ANY':
            res.ok('two-time-channels', True)
        else:
            res.violation('acquisition_time-raises:%s:%s' % (type(e).__name__, c['kind']),
                          'acquisition_time raised %s: %s; expected %r; time channel %r, keywords %r' % (
                              type(e).__name__, e, exp['acquisition_time'], c.get('timech'), kw), c)
        return res
    if exp['acquisition_time'] != 'ANY':
        want = exp['acquisition_time']
        ok = (at is None and want is None) or (at is not None and want is not None and abs(float(at) - want) <= 1e-9 * max(1, abs(want)))
        if not ok:
            res.violation('acquisition_time-value:%s' % c['kind'], 'acquisition_time is %r, expected %r; time channel %r, keywords %r' % (
                at, want, c.get('timech'), kw), c)
            return res
    # samples derived from this one (event slices) report the duration of THEIR events, also after the parent's duration has been asked for
    if exp['acquisition_time'] != 'ANY' and len(events) >= 3:
        try:
            for label, sl in (('d[1:]', slice(1, None)), ('d[:-1]', slice(None, -1)), ('d[1:2]', slice(1, 2))):
                sub = d[sl]
                ev_sub = events[sl]
                want_s = metaref(kw, names, pne, ranges, ev_sub)['acquisition_time']
                got_s = sub.acquisition_time
                ok_s = (got_s is None and want_s is None) or (got_s is not None and want_s is not None and want_s != 'ANY' and abs(float(got_s) - want_s) <= 1e-9 * max(1, abs(want_s)))
                if not ok_s and want_s != 'ANY':
                    res.violation('acquisition_time-derived:%s' % c['kind'], 'acquisition_time of %s is %r, its own events / the keywords give %r (the whole sample: %r); time channel %r, keywords %r' % (
                        label, got_s, want_s, at, c.get('timech'), kw), c)
                    return res
        except Exception as e:
            res.violation('acquisition_time-derived-raises:%s:%s' % (type(e).__name__, c['kind']), 'acquisition_time of an event slice raised %s: %s; keywords %r' % (type(e).__name__, e, kw), c)
            return res
    # the answers do not depend on the order in which they are asked for: every attribute once more after the duration was computed, on
    # the same object, and on a second load whose duration is asked FIRST
    try:
        with warnings.catch_warnings():
            warnings.simplefilter('ignore')
            d2 = FlowCal.io.FCSData(p)
            at2 = d2.acquisition_time
        for label, obj in (('after acquisition_time was read', d), ('when acquisition_time is read first', d2)):
            for attr in ('time_step', 'acquisition_start_time', 'acquisition_end_time', 'channels', 'data_type'):
                got = getattr(obj, attr)
                if not eq(got, exp[attr]):
                    res.violation('attr-order:%s:%s' % (attr, sigk), '%s is %r %s, the keywords say %r; optional keywords: %r' % (attr, got, label, exp[attr], kw), c)
                    return res
            for attr in ('channel_labels', 'range', 'resolution', 'amplification_type', 'detector_voltage', 'amplifier_gain'):
                got = getattr(obj, attr)()
                if not eq(list(got), list(exp[attr])):
                    res.violation('attr-order:%s:%s' % (attr, sigk), '%s is %r %s, the keywords say %r; optional keywords: %r' % (attr, got, label, exp[attr], kw), c)
                    return res
        at3 = d.acquisition_time
        same = lambda x, y: (x is None and y is None) or (x is not None and y is not None and float(x) == float(y))
        if not (same(at, at2) and same(at, at3)):
            res.violation('acquisition_time-order:%s' % c['kind'], 'acquisition_time is %r when read after the other attributes, %r when read first and %r when read again; keywords %r' % (
                at, at2, at3, kw), c)
            return res
    except Exception as e:
        res.violation('attr-order-raises:%s:%s' % (type(e).__name__, c['kind']), 'reading the attributes in another order raised %s: %s; keywords %r' % (type(e).__name__, e, kw), c)
        return res
    src = 'none' if exp['acquisition_time'] is None else 'any' if exp['acquisition_time'] == 'ANY' else \
        ('channel' if c.get('timech') and exp['time_step'] is not None else 'btim-etim')
    res.ok('%s:acq=%s' % (c['kind'], src), bool(kw))
    return res
