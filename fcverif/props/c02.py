"""C02 -- bead calibration end to end yields the true RFI-to-MEF conversion (E1, two layers)."""
import itertools
import math
import os
import warnings

import numpy as np

from .. import fcsgen, beadsgen, explore, logicleref
from ..runner import Result, scratch
from ..fingerprint import fp as _fp

ID = 'C02'
LEVEL = 'exploration'
TECHNIQUE = ('layer A: exhaustive enumeration of label permutations x unknown-value subsets x saturation x channels x statistic x '
             'event order with a stub clustering stage that returns the generating population of each event (orchestration '
             'decided exactly); layer B: deviation-bounded enumeration of a bead-sample lattice x noise streams through the REAL '
             'Gaussian-mixture clustering, checked for an exact partition, pairing by brightness, exclusion rules, fit identity, '
             '10% accuracy over the calibrated span, reproducibility and order-insensitivity')
RULE = ('one evaluation = one get_transform_fxn run with all clauses; layer A: every (permutation, unknown subset, ...) '
        'combination within the deviation bound once; layer B: every lattice configuration within the deviation bound x every '
        'noise stream once; non-trivial = a non-identity label permutation, an excluded population or real clustering; distinct by construction')
ASSUMPTIONS = ['bead samples come from fcverif/beadsgen.py (lognormal populations on a 10-bit, 5-decade log amplifier or float container)',
               'a finite set of deterministic noise streams stands for the random draws (seed selects which streams)',
               'a population between 5% and 95% of the display range must be kept, one piled at a detector limit must be dropped, others may go either way']
CHUNK = 2
EXHAUSTIVE = True

DEFAULT = dict(n_pop=6, ratio=3.0, cv=0.03, n_events=200, laws=[(1.0, 3.0, 0.0)], blank=False, saturated=None,
               container='int', stream=0, order='shuffled')
LAWS3 = [(1.0, 3.0, 0.0), (1.1, 2.0, 0.0), (0.95, 4.0, 0.0)]


def load(spec, tag='b'):
    import FlowCal
    lay, truth = beadsgen.bead_sample(spec)
    buf, _ = fcsgen.build(lay)
    p = os.path.join(scratch(), 'c02%s.fcs' % tag)
    with open(p, 'wb') as f:
        f.write(buf)
    d = FlowCal.io.FCSData(p)
    d = FlowCal.transform.to_rfi(d, ['FSC-H', 'SSC-H'] + truth['fl_names'])
    return d, truth


def with_auto(spec):
    """blank populations need autofluorescence > 0; keep it below half the dimmest non-blank bead"""
    s = dict(spec)
    if s.get('blank'):
        laws = []
        for (m, b, a) in s['laws']:
            dim = math.exp(m * math.log(3.0 * s['ratio']) + b)
            laws.append((m, b, max(a, 0.3 * dim)))
        s['laws'] = laws
    return s


# ---------------------------------------------------------------------------------------

def judge(res, sig, what, d, truth, out, mef_given, mef_channels, statistic, one, stub_labels=None, check_partition=False, cluster='', sizes='equal'):
    """all clauses on one full_output result.  mef_given[c][j] (None/nan = unknown).  Returns canonical summary or None."""
    import FlowCal
    labels = np.asarray(out.clustering['labels'])
    n = d.shape[0]
    if labels.shape != (n,):
        res.violation(sig + ':labels-shape', '%s: %s labels for %d events' % (what, labels.shape, n), one)
        return None
    tl = np.asarray(truth['labels'])
    npop = truth['n_pop']
    if stub_labels is not None and not np.array_equal(labels, np.asarray(stub_labels)):
        res.violation(sig + ':labels-changed', '%s: reported labels differ from the labels the clustering stage returned' % what, one)
        return None
    if check_partition:
        # every cluster holds events of exactly one generating population and vice versa
        # (populations piled up at the same detector limit in every calibrated channel cannot be told apart by anything: they count as one
        # class that spans as many clusters as it has populations)
        arr_ = np.asarray(d)
        cols_ = [list(d.channels).index(ch_) for ch_ in truth['fl_names']]
        piled = [j for j in range(npop) if all(np.all(arr_[tl == j][:, c_] >= d.range(c_)[1]) for c_ in cols_)]
        cls = {j: (piled[0] if j in piled else j) for j in range(npop)}
        tcl = [cls[j] for j in tl.tolist()]
        pairs = set(zip(labels.tolist(), tcl))
        by_label = {}
        for a_, b_ in pairs:
            by_label.setdefault(a_, set()).add(b_)
        by_class = {}
        for a_, b_ in pairs:
            by_class.setdefault(b_, set()).add(a_)
        okp = len(by_label) == npop and all(len(v_) == 1 for v_ in by_label.values()) and \
            all(len(v_) == (len(piled) if k_ in piled else 1) for k_, v_ in by_class.items())
        if not okp:
            mixed = {}
            for a, b in zip(labels.tolist(), tl.tolist()):
                mixed.setdefault(a, set()).add(b)
            res.violation(sig + ':partition:sizes=' + sizes, '%s: clusters do not coincide with the generating populations: cluster -> populations %s' % (
                what, {k: sorted(v) for k, v in mixed.items()}), one)
            return None
    # groups by reported label, ordered by brightness of the generating population
    arr = np.asarray(d)
    names = list(d.channels)
    summary = []
    for ci, ch in enumerate(mef_channels):
        col = arr[:, names.index(ch)]
        stat = np.median if 'median' in statistic else np.mean
        true_stats = [float(stat(col[tl == j])) for j in range(npop)]
        vals = np.asarray(out.statistic['values'][ci], dtype=float)
        if vals.shape != (npop,):
            res.violation(sig + ':statistic-count', '%s: %s statistics for %d populations (channel %s)' % (what, vals.shape, npop, ch), one)
            return None
        if not all(abs(v - t) <= 1e-9 * max(abs(t), 1e-300) for v, t in zip(vals, true_stats)):
            res.violation(sig + ':statistic-order:cluster=' + cluster, '%s: per-population statistics of %s are %s, the populations ordered by brightness have %s' % (
                what, ch, vals.tolist(), true_stats), one)
            return None
        srfi = np.asarray(out.selection['rfi'][ci], dtype=float)
        smef = np.asarray(out.selection['mef'][ci], dtype=float)
        if srfi.shape != smef.shape:
            res.violation(sig + ':selection-length', '%s: %d selected RFI values but %d MEF values (channel %s)' % (what, len(srfi), len(smef), ch), one)
            return None
        given = [float('nan') if v is None else float(v) for v in mef_given[ci]]
        kept = []
        for r, mv in zip(srfi.tolist(), smef.tolist()):
            js = [j for j in range(npop) if abs(true_stats[j] - r) <= 1e-9 * max(abs(r), 1e-300)]
            if len(js) != 1:
                res.violation(sig + ':selected-rfi', '%s: selected RFI %r is not the statistic of a population (%s)' % (what, r, true_stats), one)
                return None
            j = js[0]
            if not (given[j] == mv):
                res.violation(sig + ':pairing', '%s: channel %s pairs the population #%d by brightness (RFI %r) with MEF %r, its listed value is %r' % (
                    what, ch, j, r, mv, given[j]), one)
                return None
            kept.append(j)
        if kept != sorted(kept) or len(set(kept)) != len(kept):
            res.violation(sig + ':selection-order', '%s: selected populations %s are not in order of brightness' % (what, kept), one)
            return None
        lo, hi = d.range(ch)
        # display range used by the exclusion rule: logicle of the channel range
        for j in range(npop):
            pop = col[tl == j]
            unknown = given[j] != given[j]
            at_limit = bool(np.all(pop <= lo) or np.all(pop >= hi))
            if (unknown or at_limit) and j in kept:
                res.violation(sig + ':not-excluded', '%s: population #%d of channel %s (%s) takes part in the fit' % (
                    what, j, ch, 'value unknown' if unknown else 'all events at a detector limit'), one)
                return None
            if not unknown and not at_limit and j not in kept:
                # position of the population on the documented logicle display of the channel (reference model, not the library's transform)
                T_ = float(hi)
                M_ = logicleref.derived_M(T_)
                W_ = logicleref.derived_W(T_, M_, float(col.min()) if col.min() < 0 else None)
                p_ = logicleref.p_of_W(W_)

                def disp(x):
                    a_, b_ = -2.0, M_ + 2.0
                    for _ in range(80):
                        mid = 0.5 * (a_ + b_)
                        if logicleref.biexp(mid, T_, M_, W_, p_) < x:
                            a_ = mid
                        else:
                            b_ = mid
                    return 0.5 * (a_ + b_)
                s_lo, s_hi = disp(float(lo)), disp(float(hi))
                sp = np.array([disp(float(pop.min())), disp(float(pop.max()))])
                inside = np.all((sp > s_lo + 0.05 * (s_hi - s_lo)) & (sp < s_lo + 0.95 * (s_hi - s_lo)))
                if inside:
                    res.violation(sig + ':wrongly-excluded', '%s: population #%d of channel %s lies well inside the detector range but was left out of the fit' % (
                        what, j, ch), one)
                    return None
        # fit identity: same inputs => the library's own fit gives the same curve
        if len(kept) >= 3:
            probe = np.exp(np.linspace(math.log(max(min(srfi[srfi > 0]), 1e-3)), math.log(max(srfi)), 50))
            ref = FlowCal.mef.fit_beads_autofluorescence(np.array([true_stats[j] for j in kept]), np.array([given[j] for j in kept]))
            tf = out.transform_fxn
            pd_ = np.tile(probe.reshape(-1, 1), (1, d.shape[1]))
            try:
                pr0 = make_probe(d, pd_)                 # a double-precision sample, as to_rfi returns it
                f_before = _fp(pr0)
                got_full = tf(pr0, ch)
                got = np.asarray(got_full)[:, names.index(ch)]
                if _fp(pr0) != f_before:
                    res.violation(sig + ':transformation-changes-input', '%s: applying the returned transformation to channel %s changed the sample it was applied to' % (what, ch), one)
                    return None
                if _fp(tf(pr0, ch)) != _fp(got_full):
                    res.violation(sig + ':transformation-history', '%s: applying the returned transformation to the same sample a second time gives another result' % what, one)
                    return None
            except Exception as e:
                res.violation(sig + ':transformation-raises', '%s: the returned transformation applied to channel %s raised %s: %s' % (what, ch, type(e).__name__, e), one)
                return None
            want = np.asarray(ref[0](probe), dtype=float)
            if ci == 0 and len(mef_channels) > 1:
                # several channels in one request, listed in another order than they were calibrated in (as list and as tuple):
                # every channel still gets its own curve
                for req in (list(reversed(mef_channels)), tuple(mef_channels[1:] + mef_channels[:1])):
                    try:
                        many = np.asarray(tf(pr0, req))
                        for chx in mef_channels:
                            one_ch = np.asarray(tf(pr0, chx))[:, names.index(chx)]
                            if many[:, names.index(chx)].tobytes() != one_ch.tobytes():
                                res.violation(sig + ':request-order', '%s: with channels=%r channel %s is not converted as it is when requested alone' % (what, req, chx), one)
                                return None
                    except Exception as e:
                        res.violation(sig + ':transformation-raises', '%s: the returned transformation with channels=%r raised %s: %s' % (what, req, type(e).__name__, e), one)
                        return None
            if not np.allclose(got, want, rtol=1e-9, atol=0):
                res.violation(sig + ':fit-identity', '%s: the transformation of channel %s differs from the fit to the kept statistics/values' % (what, ch), one)
                return None
            # the same transformation applied to a sample whose columns are arranged differently from the bead file
            d_rev = d[:, list(reversed(names))]
            pr = make_probe(d_rev, pd_)
            try:
                got_r = np.asarray(tf(pr, ch))
            except Exception as e:
                res.violation(sig + ':fit-identity-other-layout', '%s: applied to a sample with columns %r the transformation raised %s: %s' % (
                    what, list(d_rev.channels), type(e).__name__, e), one)
                return None
            col_r = list(d_rev.channels).index(ch)
            others = [i for i in range(got_r.shape[1]) if i != col_r]
            if not np.allclose(got_r[:, col_r], want, rtol=1e-9, atol=0) or not np.array_equal(got_r[:, others], np.asarray(pr)[:, others]):
                res.violation(sig + ':fit-identity-other-layout', '%s: applied to a sample with columns %r the transformation does not convert channel %s with its own curve (or touches other channels)' % (
                    what, list(d_rev.channels), ch), one)
                return None
            # within 10% of the generating law over the calibrated span
            m, b, auto = truth_law(truth, ci, one)
            nb = [j for j in kept if given[j] > 0]
            if len(nb) >= 2:
                span = np.exp(np.linspace(math.log(true_stats[nb[0]]), math.log(true_stats[nb[-1]]), 50))
                got2 = np.asarray(ref[0](span), dtype=float)
                true2 = np.exp(b) * span ** m
                dev = np.abs(got2 / true2 - 1)
                if dev.size and dev.max() > 0.10:
                    res.violation(sig + ':accuracy', '%s: channel %s conversion is %.1f%% off the generating law within the calibrated span' % (
                        what, ch, 100 * dev.max()), one)
                    return None
                if dev.size:
                    res.counters['max_conversion_error_ppm'] = max(res.counters['max_conversion_error_ppm'], int(dev.max() * 1e6))
            params = np.asarray(out.fitting['beads_params'][ci], dtype=float).tolist()
        else:
            params = None
        summary.append((ch, kept, [round(float(x), 9) for x in srfi], smef.tolist(), params))
    return summary


def make_probe(d, values):
    p = d[:values.shape[0]].copy()
    p[:, :] = values
    return p


_LAWS = {}


def truth_law(truth, ci, one):
    return truth['laws'][ci]


def run_pipeline(d, truth, mef_given, mef_channels, clustering_channels, statistic, clustering_fxn=None, seed=0, list_form=False, selection='default',
                 plot=False):
    import FlowCal
    kw = {}
    if plot:
        pd_ = os.path.join(scratch(), 'c02plots')
        os.makedirs(pd_, exist_ok=True)
        kw.update(plot=True, plot_dir=pd_, plot_filename='c02')
    if clustering_fxn is not None:
        kw['clustering_fxn'] = clustering_fxn
    if selection == 'none':
        kw['selection_fxn'] = None
    np.random.seed(seed)
    # the caller's own containers: handed in, and changed by the caller after the call (the returned transformation and the reported
    # outcome must not depend on what the caller does with its lists afterwards)
    c_values = [list(r) for r in mef_given]
    c_channels = list(mef_channels)
    c_cluster = list(clustering_channels) if clustering_channels is not None else None
    as_lists = len(mef_channels) > 1 or list_form
    out = FlowCal.mef.get_transform_fxn(
        d, c_values if as_lists else c_values[0], c_channels if as_lists else c_channels[0],
        clustering_channels=c_cluster, statistic_fxn={'median': FlowCal.stats.median, 'mean': FlowCal.stats.mean, 'np-median': np.median,
                                                     'np-mean': np.mean}[statistic],
        full_output=True, **kw)
    for r in c_values:
        r[:] = [1.0 + i for i in range(len(r))][::-1]
    c_channels.reverse()
    c_channels[0:1] = ['FSC-H']
    if c_cluster:
        c_cluster[:] = ['SSC-H']
    return out


# ---------------------------------------------------------------------------------------
# layer A

def layer_a_cases(tier):
    k = 6
    perms = list(itertools.permutations(range(k)))
    dims = [('perm', list(range(len(perms)))),
            ('unknown', [()] + [s for r in (1, 2, 3) for s in itertools.combinations(range(k), r)]),
            ('unk_form', ['None', 'nan']),
            ('unk_scope', ['all-channels', 'first-channel-only', 'staggered']),
            ('decades', [5, 4]),
            ('saturated', [None, 'brightest', 'dimmest']),
            ('nch', [2, 1, 3]),
            ('cluster', ['mef', 'one', 'all-fl', 'with-scatter']),
            ('statistic', ['median', 'mean', 'np-median', 'np-mean']),       # the documented choices: FlowCal.stats or NumPy functions
            ('order', ['shuffled', 'sorted', 'reversed', 'interleaved']),
            ('blank', [False, True]),
            ('selection', ['default', 'none'])]          # 'none': selection_fxn=None (documented: no population selection procedure)
    bound = 2 if tier == 'quick' else 3
    # the permutation dimension is large: complete in combination with <= bound-1 other deviations
    group = {}
    for c in explore.deviations(dims, bound):
        if tier == 'thorough' and c['_dev'] == 3 and c['perm'] != 0 and c['perm'] % 7:
            continue      # thorough, 3 deviations: every 7th permutation (stated in the evidence); bound 2 is complete
        if c['selection'] == 'none' and c['saturated'] is not None:
            continue      # without the selection step a saturated population is not left out (by request); unknown values still are
        key = (c['saturated'], c['nch'], c['order'], c['blank'], c['decades'])
        group.setdefault(key, []).append(c)
    for key, lst in group.items():
        for i in range(0, len(lst), 120):
            yield dict(kind='A', k=k, items=lst[i:i + 120])


def run_a(c, res):
    k = c['k']
    perms = list(itertools.permutations(range(k)))
    first = c['items'][0]
    spec = dict(DEFAULT, n_pop=k, n_events=60, saturated=first['saturated'], laws=LAWS3, order=first['order'], decades=first.get('decades', 5),
                blank=first['blank'])
    spec = with_auto(spec)
    d, truth = load(spec, 'a')
    truth['laws'] = spec['laws']
    tl = np.asarray(truth['labels'])
    base = {}
    for it in c['items']:
        pi = perms[it['perm']]
        stub_labels = [pi[j] for j in tl.tolist()]
        mef_channels = truth['fl_names'][:it['nch']]
        mef_given = []
        for ci in range(len(mef_channels)):
            row = [float(v) for v in truth['mef'][ci]]
            scope = it.get('unk_scope', 'all-channels')
            for ui, u in enumerate(it['unknown']):
                if scope == 'first-channel-only' and ci != 0:
                    continue
                uu = (u + ci) % k if scope == 'staggered' else u     # another position in every channel
                row[uu] = None if it['unk_form'] == 'None' else float('nan')
            mef_given.append(row)
        cl = {'mef': None, 'one': [mef_channels[0]], 'all-fl': list(truth['fl_names']), 'with-scatter': ['FSC-H', 'SSC-H'] + mef_channels}[it['cluster']]
        one = dict(kind='A', k=k, items=[it])
        what = 'get_transform_fxn(stub clustering, label permutation %s, unknown %s as %s, saturated %s, %d channel(s), clustering on %s, %s, events %s, blank %s, selection %s)' % (
            pi, list(it['unknown']), it['unk_form'], it['saturated'], it['nch'], it['cluster'], it['statistic'], it['order'], it['blank'], it.get('selection', 'default'))
        n_known = k - len(it['unknown'])
        try:
            with warnings.catch_warnings():
                warnings.simplefilter('ignore')
                out = run_pipeline(d, truth, mef_given, mef_channels, cl, it['statistic'],
                                   clustering_fxn=lambda data, n_clusters, **kw: list(stub_labels), list_form=it['perm'] % 2 == 1,
                                   selection=it.get('selection', 'default'))
        except Exception as e:
            nsat = 1 if it['saturated'] else 0
            if n_known - nsat < 3 and isinstance(e, ValueError):
                res.ok('A:too-few-populations-refused', True)
            else:
                res.violation('A:raises:%s' % type(e).__name__, '%s raised %s: %s' % (what, type(e).__name__, e), one)
            continue
        s = judge(res, 'A', what, d, truth, out, mef_given, mef_channels, it['statistic'], one, stub_labels=stub_labels, cluster=it['cluster'])
        if s is None:
            continue
        # identical outcome for every label permutation / clustering-channel choice (same sample, same unknowns, same statistic)
        key = (it['unknown'], it['statistic'], it.get('unk_scope'), it['nch'], it.get('selection', 'default'))
        canon = [(ch, kept, rfi, mef) for ch, kept, rfi, mef, params in s]
        if key in base and base[key][0] != canon:
            res.violation('A:permutation-dependent', '%s: outcome differs from the one for %s' % (what, base[key][1]), one)
            continue
        base.setdefault(key, (canon, what))
        res.ok('A', it['perm'] != 0 or bool(it['unknown']) or it['saturated'] is not None)
    res.sample({'layer': 'A', 'first_item': {k_: v for k_, v in first.items()}, 'items': len(c['items'])})


# ---------------------------------------------------------------------------------------
# layer B

def layer_b_cases(tier, seed):
    dims = [('n_pop', [6, 7, 8]), ('ratio', [3.0, 2.5, 4.0]), ('cv', [0.03, 0.02, 0.05]), ('n_events', [200, 800]),
            ('m', [1.0, 0.9, 1.2]), ('b', [3.0, 1.0, 5.0, -1.2]), ('auto', ['none', 'some']), ('nch', [1, 2, 3]), ('blank', [False, True]),
            ('saturated', [None, 'brightest', 'dimmest', 'two-brightest']), ('unknown', [None, 'first', 'middle', 'last']),
            ('cluster', ['mef', 'one', 'all-fl', 'with-scatter']), ('container', ['int', 'float']), ('statistic', ['median', 'mean']),
            ('sizes', ['equal', 'alternating', 'increasing', 'decreasing']), ('decades', [5, 4])]
    # (b = -1.2 lies below the stated interval [1, 5]: one RFI unit worth less than one MEF unit -- a dim bead kit at high gain; legal input)
    bound = 1 if tier == 'quick' else 2
    K = 2 if tier == 'quick' else 4
    streams = [seed * K + i for i in range(K)]
    for cfg in explore.deviations(dims, bound):
        top = 3.0 * cfg['ratio'] ** (cfg['n_pop'] - 1 + (1 if cfg['blank'] else 0)) * (1.5 if cfg['saturated'] not in ('brightest', 'two-brightest') else 0.3)
        if top >= 10 ** cfg['decades']:
            continue          # the ladder would not fit into the detector range
        for st in streams:
            yield dict(kind='B', cfg=cfg, stream=st)
    # several calibrations in one process, on bead files whose equally named channels have different detector ranges and brightness
    # (a 4-decade integer file, then a floating-point file with beads a hundred times brighter, then the first again), in both orders
    base = {k_: v[0] for k_, v in dims}
    cfg_a = dict(base, decades=4)
    cfg_b = dict(base, container='float', rfi_min=300.0)
    cfg_c = dict(base, container='float', rfi_min=30.0, n_pop=cfg_a['n_pop'])
    for seq in ([cfg_a, cfg_b, cfg_a], [cfg_b, cfg_a, cfg_c], [cfg_c, cfg_b]):
        yield dict(kind='B-sequence', cfgs=seq, stream=streams[0])
    # large bead files stored population after population (or the other way round): 6400 and 9600 events, not in random order
    for order in ('sorted', 'reversed', 'interleaved'):
        for (npop, nev) in ((8, 800), (8, 1200)):
            yield dict(kind='B', cfg=dict(base, n_pop=npop, n_events=nev, order=order, container='float', decades=6), stream=streams[0])
    # floating-point files that declare a range of 2**24 (the display then has more than 4.5 decades), with dim but well resolved beads
    for v in (50.0, 80.0, 150.0):
        for sat in (None, 'two-brightest'):
            yield dict(kind='B', cfg=dict(base, container='float', frange=2 ** 24, rfi_min=v, n_pop=8, saturated=sat, decades=6), stream=streams[0])
    # the same bead sample object calibrated twice, the first time with the diagnostic figures switched on: the figures are a by-product,
    # the sample handed in stays as it was and the second calibration reproduces the first. The dimmest population is stepped through
    # the region just above the lower detector limit, where the exclusion rule is sensitive to the limits the sample reports.
    grid = [2.0, 2.6, 3.1, 3.5, 4.0, 5.0] if tier == 'quick' else [round(1.5 * 1.06 ** i, 3) for i in range(30)]
    for cont in ('float', 'int'):
        for g in (grid if cont == 'float' else grid[:1]):
            yield dict(kind='B-plot', cfg=dict(base, container=cont, rfi_min=g, n_pop=8 if cont == 'float' else 6), stream=streams[0])


def spec_of(cfg, stream):
    laws = []
    for ci in range(3):
        m = cfg['m'] + 0.05 * ci
        b = cfg['b'] + 0.5 * ci
        laws.append((m, b, 0.0))
    k = cfg['n_pop']
    sizes = {'equal': [cfg['n_events']] * k,
             'alternating': [200 if j % 2 == 0 else 800 for j in range(k)],
             'increasing': [int(round(200 + 600.0 * j / (k - 1))) for j in range(k)],
             'decreasing': [int(round(800 - 600.0 * j / (k - 1))) for j in range(k)]}[cfg.get('sizes', 'equal')]
    spec = dict(DEFAULT, n_pop=cfg['n_pop'], ratio=cfg['ratio'], cv=cfg['cv'], n_events=sizes, laws=laws,
                blank=cfg['blank'], saturated=cfg['saturated'], container=cfg['container'], stream=stream, decades=cfg.get('decades', 5),
                rfi_min=cfg.get('rfi_min', 3.0), frange=cfg.get('frange', 262144), order=cfg.get('order', 'shuffled'))
    if cfg['auto'] == 'some' or cfg['blank']:
        laws2 = []
        for (m, b, a) in laws:
            dim = math.exp(m * math.log(3.0 * (cfg['ratio'] if cfg['blank'] else 1.0)) + b)
            laws2.append((m, b, 0.3 * dim))
        spec['laws'] = laws2
    return spec


def run_b(c, res, one_case=None):
    cfg, stream = c['cfg'], c['stream']
    spec = spec_of(cfg, stream)
    d, truth = load(spec, 'b')
    truth['laws'] = spec['laws']
    mef_channels = truth['fl_names'][:cfg['nch']]
    k = cfg['n_pop']
    mef_given = []
    for ci in range(len(mef_channels)):
        row = [float(v) for v in truth['mef'][ci]]
        if cfg['unknown']:
            u = {'first': 0, 'middle': k // 2, 'last': k - 1}[cfg['unknown']]
            row[u] = None
        mef_given.append(row)
    cl = {'mef': None, 'one': [mef_channels[0]], 'all-fl': list(truth['fl_names']), 'with-scatter': ['FSC-H', 'SSC-H'] + mef_channels}[cfg['cluster']]
    one = dict(one_case) if one_case else dict(c)
    what = ('(in a sequence of calibrations) ' if one_case else '') + 'get_transform_fxn(real clustering; %s; noise stream %d)' % (', '.join('%s=%r' % kv for kv in sorted(cfg.items()) if kv[0] != '_dev'), stream)
    try:
        with warnings.catch_warnings():
            warnings.simplefilter('ignore')
            out = run_pipeline(d, truth, mef_given, mef_channels, cl, cfg['statistic'], seed=stream)
    except Exception as e:
        res.violation('B:raises:%s:sizes=%s' % (type(e).__name__, cfg.get('sizes', 'equal')), '%s raised %s: %s' % (what, type(e).__name__, e), one)
        return
    s = judge(res, 'B', what, d, truth, out, mef_given, mef_channels, cfg['statistic'], one, check_partition=True, cluster=cfg['cluster'], sizes=cfg.get('sizes', 'equal'))
    if s is None:
        return
    # reproducible for a fixed random seed
    try:
        with warnings.catch_warnings():
            warnings.simplefilter('ignore')
            out2 = run_pipeline(d, truth, mef_given, mef_channels, cl, cfg['statistic'], seed=stream)
    except Exception as e:
        res.violation('B:second-run-raises:%s' % type(e).__name__, '%s: the same calibration a second time raised %s: %s' % (what, type(e).__name__, e), one)
        return
    if not np.array_equal(np.asarray(out.clustering['labels']), np.asarray(out2.clustering['labels'])) or \
            any(not np.array_equal(np.asarray(a), np.asarray(b)) for a, b in zip(out.fitting['beads_params'], out2.fitting['beads_params'])):
        res.violation('B:not-reproducible', '%s: two runs with the same random seed differ' % what, one)
        return
    # order-insensitive: the same events in another order
    spec2 = dict(spec, order='reversed')
    d2, truth2 = load(spec2, 'b2')
    truth2['laws'] = spec['laws']
    try:
        with warnings.catch_warnings():
            warnings.simplefilter('ignore')
            out3 = run_pipeline(d2, truth2, mef_given, mef_channels, cl, cfg['statistic'], seed=stream + 77)
    except Exception as e:
        res.violation('B:reordered-raises:%s' % type(e).__name__, '%s: with the events in reversed order the calibration raised %s: %s' % (what, type(e).__name__, e), one)
        return
    s3 = judge(res, 'B:reordered', what + ' [events reversed]', d2, truth2, out3, mef_given, mef_channels, cfg['statistic'], one, check_partition=True, cluster=cfg['cluster'], sizes=cfg.get('sizes', 'equal'))
    if s3 is None:
        return
    for (ch, kept, rfi, mef, params), (ch3, kept3, rfi3, mef3, params3) in zip(s, s3):
        same_curve = True
        if params is not None and params3 is not None:
            xs = np.exp(np.linspace(math.log(max(min(rfi), 1e-3)), math.log(max(rfi)), 25))
            c1 = math.exp(params[1]) * xs ** params[0]
            c3 = math.exp(params3[1]) * xs ** params3[0]
            same_curve = bool(np.all(np.abs(c1 / c3 - 1) < 1e-5))
        if kept != kept3 or mef != mef3 or not np.allclose(rfi, rfi3, rtol=1e-9) or not same_curve:
            res.violation('B:order-dependent', '%s: another event order changes the outcome of channel %s (kept %s vs %s, parameters %s vs %s)' % (
                what, ch, kept, kept3, params, params3), one)
            return
    res.ok('B', True)
    res.sample({'layer': 'B', 'configuration': {k_: v for k_, v in cfg.items()}, 'stream': stream, 'events': int(d.shape[0])})


def run_b_plot(c, res):
    cfg, stream = c['cfg'], c['stream']
    spec = spec_of(cfg, stream)
    d, truth = load(spec, 'p')
    truth['laws'] = spec['laws']
    mef_channels = truth['fl_names'][:1]
    mef_given = [[float(v) for v in truth['mef'][0]]]
    one = dict(c)
    what = 'get_transform_fxn(plot=True) then get_transform_fxn(plot=False) on the same %s bead sample (dimmest population at %g)' % (cfg['container'], cfg['rfi_min'])
    f0 = _fp(d)
    outs = []
    try:
        with warnings.catch_warnings():
            warnings.simplefilter('ignore')
            outs.append(run_pipeline(d, truth, mef_given, mef_channels, None, 'median', seed=stream, plot=True))
            f1 = _fp(d)
            outs.append(run_pipeline(d, truth, mef_given, mef_channels, None, 'median', seed=stream))
            d3, _ = load(spec, 'p3')
            outs.append(run_pipeline(d3, truth, mef_given, mef_channels, None, 'median', seed=stream))
    except Exception as e:
        res.violation('B-plot:raises:%s' % type(e).__name__, '%s raised %s: %s' % (what, type(e).__name__, e), one)
        return
    finally:
        import matplotlib.pyplot as plt
        plt.close('all')
    sig = []
    for o in outs:
        sig.append((np.asarray(o.clustering['labels']).tolist(), [np.asarray(x, dtype=float).tolist() for x in o.selection['rfi']],
                    [np.asarray(x, dtype=float).tolist() for x in o.selection['mef']], [np.asarray(x, dtype=float).tolist() for x in o.fitting['beads_params']]))
    if sig[0] != sig[1]:
        res.violation('B-plot:figures-change-outcome', '%s: the two calibrations differ (selected %d vs %d populations)' % (what, len(sig[0][1][0]), len(sig[1][1][0])), one)
        return
    if sig[1] != sig[2]:
        res.violation('B-plot:history', '%s: the second calibration differs from that of a freshly loaded copy of the file (selected %d vs %d populations)' % (
            what, len(sig[1][1][0]), len(sig[2][1][0])), one)
        return
    if f1 != f0:
        from ..fingerprint import diff as _diff
        res.violation('B-plot:sample-changed', '%s: the first calibration changed the bead sample handed in (%s)' % (what, _diff(f0, f1)), one)
        return
    res.ok('B-plot', True)
    res.sample({'layer': 'B-plot', 'container': cfg['container'], 'rfi_min': cfg['rfi_min']})


def cases(tier, seed):
    # the sequences of calibrations come first (and each is followed by a filler) so that each is the first thing its worker process
    # executes: state kept by the library from earlier calibrations of the same process cannot mask what they are after
    later = []
    for c in layer_b_cases(tier, seed):
        if c['kind'] in ('B-sequence', 'B-plot'):
            yield c
            yield dict(kind='selection', scale='linear', cont='array', filler=True)
        else:
            later.append(c)
    for scale in ('logicle', 'log', 'linear'):
        for cont in ('sample', 'array'):
            yield dict(kind='selection', scale=scale, cont=cont)
    for c in layer_a_cases(tier):
        yield c
    for c in later:
        yield c


def bounds(tier, seed):
    return {'layer_A': 'S_6 x unknown subsets (<=3) x ... within %d deviations' % (2 if tier == 'quick' else 3),
            'layer_B': 'lattice within %d deviation(s) x %d noise streams (seed %d)' % (1 if tier == 'quick' else 2, 2 if tier == 'quick' else 4, seed)}


def run_selection(c, res):
    """the exclusion rule with explicit thresholds: every combination of {given, defaulted} low / high"""
    import FlowCal
    spec = dict(DEFAULT, n_pop=6, n_events=50, laws=LAWS3, order='sorted', decades=4)
    d, truth = load(spec, 's')
    tl = np.asarray(truth['labels'])
    ch = truth['fl_names'][0]
    if c['cont'] == 'sample':
        pops = [d[tl == j][:, [ch]] for j in range(6)]
    else:
        pops = [np.array(d[tl == j][:, [ch]].view(np.ndarray)) for j in range(6)]
    centres = [float(np.median(np.asarray(p))) for p in pops]
    sel = lambda **kw: np.asarray(FlowCal.mef.selection_std([p for p in pops], scale=c['scale'], **kw), dtype=bool)
    lows = [None, centres[0] * 1.5, centres[1] * 1.6, 0.5]
    highs = [None, centres[-1] / 1.5, centres[-2] / 1.6, centres[-1] * 50]
    if c['cont'] == 'array':
        lows, highs = lows[1:], highs[1:]             # plain arrays have no range to default from
    for lo in lows:
        for hi in highs:
            one = dict(c)
            what = 'selection_std(6 populations at %s, low=%r, high=%r, scale=%r)' % ([round(x, 1) for x in centres], lo, hi, c['scale'])
            try:
                m_lh = sel(**{k_: v for k_, v in (('low', lo), ('high', hi)) if v is not None})
                m_l = sel(**({'low': lo} if lo is not None else {})) if c['cont'] == 'sample' else None
                m_h = sel(**({'high': hi} if hi is not None else {})) if c['cont'] == 'sample' else None
                m_0 = sel() if c['cont'] == 'sample' else None
            except Exception as e:
                res.violation('selection:raises:%s' % type(e).__name__, '%s raised %s: %s' % (what, type(e).__name__, e), one)
                continue
            bad = None
            for j in range(6):
                v = np.asarray(pops[j], dtype=float)
                if hi is not None and np.all(v > hi) and m_lh[j]:
                    bad = 'population #%d lies entirely above the high threshold but is selected' % j
                if lo is not None and np.all(v < lo) and m_lh[j]:
                    bad = 'population #%d lies entirely below the low threshold but is selected' % j
            if bad is None and m_0 is not None:
                # the rule is a conjunction of an independent low condition and high condition
                if not np.array_equal(m_l & m_h, m_lh & m_0):
                    bad = 'the masks for (low only) %s and (high only) %s do not combine to the mask for both %s and the default mask %s' % (
                        m_l.astype(int).tolist(), m_h.astype(int).tolist(), m_lh.astype(int).tolist(), m_0.astype(int).tolist())
            if bad:
                res.violation('selection:thresholds', '%s: %s' % (what, bad), one)
            else:
                res.ok('selection', lo is not None or hi is not None)
    # n_std_low belongs to the low threshold and n_std_high to the high threshold: with the other threshold far away, a population is
    # dropped exactly when its mean lies within n_std standard deviations (of the rescaled population) of the near threshold, and the
    # other count has no say
    import FlowCal.plot
    if c['scale'] == 'linear':
        sf = lambda x: np.asarray(x, dtype=float)
    elif c['scale'] == 'log':
        sf = lambda x: np.log10(np.asarray(x, dtype=float))
    else:
        t_ = FlowCal.plot._LogicleTransform(data=pops[0], channel=0).inverted()
        sf = lambda x: t_.transform_non_affine(np.asarray(x, dtype=float), mask_out_of_range=False)
    far_lo = {'linear': -1e9, 'log': 1e-12, 'logicle': -1e4}[c['scale']]
    far_hi = {'linear': 1e12, 'log': 1e12, 'logicle': 1e9}[c['scale']]
    mu = [float(np.mean(sf(np.asarray(p_).ravel()))) for p_ in pops]
    sd = [max(float(np.std(sf(np.asarray(p_).ravel()))), 0.005) for p_ in pops]
    for side, j in (('high', 5), ('high', 4), ('low', 0), ('low', 1)):
        if c['scale'] == 'logicle' and c['cont'] == 'array':
            break         # a plain array has no range: the logicle scale is derived from the first population alone and does not span the others
        for near_n in (1.0, 2.0, 4.0):
            # threshold placed 3 standard deviations from the population mean: dropped for counts above 3, kept below
            thr_s = mu[j] + 3.0 * sd[j] if side == 'high' else mu[j] - 3.0 * sd[j]
            # back to data units by bisection on the monotone rescaling
            lo_x, hi_x = (1e-9 if c['scale'] == 'log' else -1e3), 1e7
            for _ in range(200):
                mid = 0.5 * (lo_x + hi_x)
                if float(sf(mid)) < thr_s:
                    lo_x = mid
                else:
                    hi_x = mid
            thr = 0.5 * (lo_x + hi_x)
            for other_n in (0.5, 2.5, 6.0):
                kw = dict(low=far_lo, high=thr, n_std_high=near_n, n_std_low=other_n) if side == 'high' else \
                    dict(low=thr, high=far_hi, n_std_low=near_n, n_std_high=other_n)
                one = dict(c)
                what = 'selection_std(6 populations, %s, scale=%r)' % (', '.join('%s=%r' % kv for kv in sorted(kw.items())), c['scale'])
                try:
                    m = sel(**kw)
                except Exception as e:
                    res.violation('selection:nstd:raises:%s' % type(e).__name__, '%s raised %s: %s' % (what, type(e).__name__, e), one)
                    continue
                want = near_n < 3.0
                if bool(m[j]) != want:
                    res.violation('selection:nstd-%s' % side, '%s: population #%d (mean %.4g, std %.4g in rescaled units; %s threshold 3 std away) is %s, expected %s' % (
                        what, j, mu[j], sd[j], side, 'kept' if m[j] else 'dropped', 'kept' if want else 'dropped'), one)
                else:
                    res.ok('selection:nstd', True)
    res.sample({'selection_std': 'explicit / defaulted thresholds', 'scale': c['scale'], 'container': c['cont']})


def run_case(c):
    res = Result()
    if c['kind'] == 'selection':
        run_selection(c, res)
        return res
    if c['kind'] == 'A':
        run_a(c, res)
    elif c['kind'] == 'B-plot':
        run_b_plot(c, res)
    elif c['kind'] == 'B-sequence':
        for cfg in c['cfgs']:
            run_b(dict(kind='B', cfg=cfg, stream=c['stream']), res, one_case=c)
    else:
        run_b(c, res)
    return res
