"""C06 -- MEF conversion applies each channel's own standard curve, or refuses (E1)."""
import itertools
import os
import warnings

import numpy as np

from .. import fcsgen
from ..fingerprint import fp, meta, diff
from ..runner import Result, scratch

ID = 'C06'
LEVEL = 'exploration'
TECHNIQUE = ('exhaustive enumeration of every ordered subset of (curve, channel) pairs x name/position spelling x every ordered '
             'channel request (incl. scalar, None, one uncovered channel, unequal list lengths) on a 4-channel sample and a plain '
             'array, with tagged curves p_i*x+q_i so that any mispairing changes values; the same requests through the partial '
             'function returned by mef.get_transform_fxn with stubbed clustering/fitting stages')
RULE = ('one evaluation = one to_mef call compared bitwise with a plain per-channel loop; every (curve list, request) '
        'combination exactly once; non-trivial = at least one channel converted or an expected refusal')
ASSUMPTIONS = ['curves are affine with distinct prime coefficients (x -> p*x+q): pairing errors are visible, numerical behaviour of real curves is C07/C09']
CHUNK = 4

P = [2.0, 3.0, 5.0, 7.0]
Q = [11.0, 13.0, 17.0, 19.0]
NAMES = ['CH1', 'CH2', 'CH3', 'CH4']


def curve(i):
    return lambda x, i=i: P[i] * x + Q[i]


def sample():
    import FlowCal
    events = [[(3 * i + j) % 50 + 1 for j in range(4)] for i in range(12)]
    lay = dict(datatype='I', bits=[16] * 4, ranges=[1024, 256, 4096, 512], pne=['0,0'] * 4, events=events, byteord='1,2,3,4')
    p = os.path.join(scratch(), 'c06.fcs')
    if not os.path.exists(p):
        buf, _ = fcsgen.build(lay)
        with open(p, 'wb') as f:
            f.write(buf)
    return FlowCal.transform.to_rfi(FlowCal.io.FCSData(p))


def ordered_subsets(n=4, maxk=4, mink=0):
    for k in range(mink, maxk + 1):
        for p in itertools.permutations(range(n), k):
            yield list(p)


def spell(S, pat):
    return [NAMES[j] if b else j for j, b in zip(S, pat)]


def cases(tier, seed):
    for SC in ordered_subsets(mink=1):
        yield dict(kind='sample', SC=SC, tier=tier)
    yield dict(kind='sc-none', tier=tier)
    yield dict(kind='layouts', tier=tier)
    yield dict(kind='array', tier=tier)
    yield dict(kind='partial', tier=tier)
    yield dict(kind='nonfinite', tier=tier)
    yield dict(kind='shared-and-single', tier=tier)
    for n in ((65537, 150001) if tier == 'quick' else (65535, 65536, 65537, 100001, 131073, 150001, 1048577)):
        yield dict(kind='big', n=n, tier=tier)
    for sub in DEGENERATE:
        yield dict(kind='degenerate', sub=sub, tier=tier)


DEGENERATE = ['no events (slice)', 'no events (mask)', 'one event', 'two events', 'three events', 'no events (array)', 'one event (array)']


def bounds(tier, seed):
    return {'channels': 4, 'curve_subsets': 'all ordered subsets', 'requests': 'all ordered subsets + scalars + None'}


def judge(res, sig, what, d, base, call, sc_cols, req_cols, one, expect_refusal):
    """sc_cols: list of original columns the curves are for (curve i belongs to column sc_cols[i]); req_cols: requested columns"""
    either = expect_refusal == 'EITHER'          # refusing is fine, converting correctly is fine, passing data through is not
    try:
        t = call()
    except Exception as e:
        if either:
            res.ok('refused-or-converted', True)
            return
        if expect_refusal:
            res.ok('refused', True)
        else:
            res.violation(sig + ':raises:%s' % type(e).__name__, '%s raised %s: %s' % (what, type(e).__name__, e), one)
        return
    if expect_refusal and not either:
        res.violation(sig + ':not-refused', '%s returned data although %s' % (what, expect_refusal), one)
        return
    a = np.asarray(t)
    if a.shape != base.shape:
        res.violation(sig + ':shape', '%s returned shape %s' % (what, a.shape), one)
        return
    for j in range(base.shape[1]):
        if j in req_cols:
            exp = P[j] * base[:, j] + Q[j]
        else:
            exp = base[:, j]
        if a[:, j].tobytes() != np.asarray(exp, dtype=np.float64).tobytes():
            res.violation(sig + (':paired-wrong' if j in req_cols else ':untouched-changed'),
                          '%s: channel %d is %s..., expected %s... (%s)' % (what, j, a[:3, j].tolist(), np.asarray(exp)[:3].tolist(),
                                                                          'its own curve %gx+%g' % (P[j], Q[j]) if j in req_cols else 'unchanged'), one)
            return
    if hasattr(d, 'channels'):
        dm = diff(meta(t, with_range=False), meta(d, with_range=False))
        if dm:
            res.violation(sig + ':metadata', '%s changed non-range metadata: %s' % (what, dm), one)
            return
        for j in range(4):
            want = [P[j] * x + Q[j] for x in d.range(j)] if j in req_cols else d.range(j)
            if list(t.range(j)) != list(want):
                res.violation(sig + ':range', '%s: range of channel %d is %r, expected %r' % (what, j, t.range(j), want), one)
                return
    res.ok(sig + ':converted', len(req_cols) > 0)


def requests(tier, named=True):
    """(request object, list of requested columns or None for 'all curves')"""
    out = [(None, None)]
    for j in range(4):
        out.append((j, [j]))
        if named:
            out.append((NAMES[j], [j]))
    for R in ordered_subsets(maxk=4 if tier == 'thorough' else 3, mink=0):
        out.append((list(R), list(R)))
        if named and R:
            out.append(([NAMES[j] for j in R], list(R)))
            if len(R) >= 2:
                out.append((spell(R, [i % 2 for i in range(len(R))]), list(R)))
                out.append((spell(R, [(i + 1) % 2 for i in range(len(R))]), list(R)))
    # other containers for the request: tuples and NumPy arrays of names or positions (one, two and more entries)
    for R in ([0], [2, 1], [3, 0, 1], [1, 2, 3, 0], [3, 2]):
        out.append((tuple(R), list(R)))
        if not named:
            out.append((np.array(R), list(R)))       # (a sample's name lookup refuses position arrays: TypeError, by its documented interface)
        if named:
            out.append((tuple(NAMES[j] for j in R), list(R)))
            out.append((np.array([NAMES[j] for j in R]), list(R)))
    # the same channel named more than once in a request is converted once
    for j in range(4):
        k = (j + 1) % 4
        out.append(([j, j], [j, j]))
        out.append(([j, k, j], [j, k, j]))
        if named:
            out.append(([NAMES[j], j], [j, j]))
            out.append(([NAMES[j], NAMES[k], NAMES[j], k], [j, k, j, k]))
    return out


def run_case(c):
    import FlowCal
    res = Result()
    tier = c.get('tier', 'quick')
    to_mef = FlowCal.transform.to_mef
    d = sample()
    base = np.array(d.view(np.ndarray))
    with warnings.catch_warnings():
        warnings.simplefilter('ignore')
        if c['kind'] == 'sample':
            SC = c['SC']
            k = len(SC)
            pats = list(itertools.product([0, 1], repeat=k)) if tier == 'thorough' else \
                sorted({tuple([0] * k), tuple([1] * k), tuple(i % 2 for i in range(k))})
            for pat in pats:
                scch = spell(SC, pat)
                scl = [curve(j) for j in SC]
                for req, cols in requests(tier):
                    rc = list(SC) if cols is None else cols
                    unc = [j for j in rc if j not in SC]
                    what = 'to_mef(sample, channels=%r, curves for %r, sc_channels=%r)' % (req, SC, scch)
                    one = dict(c)
                    judge(res, 'sample', what, d, base, lambda: to_mef(d, req, scl, scch), SC, rc, one,
                          'channel(s) %r have no curve' % unc if unc else None)
                # a request naming a channel the sample does not have (alone or next to covered channels) is refused as well
                for req in ('CH9', ['CH9'], [NAMES[SC[0]], 'CH9'], ['nope', SC[0]], ('CH1 ',), 'ch1'):
                    judge(res, 'sample-unknown', 'to_mef(sample, channels=%r, curves for %r, sc_channels=%r)' % (req, SC, scch), d, base,
                          lambda: to_mef(d, req, scl, scch), SC, [], dict(c), 'the request names a channel the sample does not have')
                # the request and the curve list spell a channel with different sign conventions (position counted from the last
                # channel): matched or refused, never handed back unconverted
                for j in range(4):
                    for req in (j - 4, [j - 4], [j - 4, SC[0]]):
                        rc = [j] if not isinstance(req, list) or len(req) == 1 else [j, SC[0]]
                        unc = [x for x in rc if x not in SC]
                        judge(res, 'sample-neg', 'to_mef(sample, channels=%r, curves for %r, sc_channels=%r)' % (req, SC, scch), d, base,
                              lambda: to_mef(d, req, scl, scch), SC, rc, dict(c), 'channel(s) %r have no curve' % unc if unc else 'EITHER')
                negsc = [x - 4 for x in SC]
                for req, cols in requests('quick')[:12]:
                    rc = list(SC) if cols is None else cols
                    unc = [x for x in rc if x not in SC]
                    judge(res, 'sample-neg', 'to_mef(sample, channels=%r, curves for %r, sc_channels=%r)' % (req, SC, negsc), d, base,
                          lambda: to_mef(d, req, scl, negsc), SC, rc, dict(c), 'channel(s) %r have no curve' % unc if unc else 'EITHER')
                # unequal numbers of curves and channels
                for wrong in (scl[:-1], scl + [curve(0)]):
                    judge(res, 'sample', 'to_mef(sample, %r, %d curves, sc_channels=%r)' % (scch[:1], len(wrong), scch), d, base,
                          lambda: to_mef(d, scch[:1], wrong, scch), SC, [], dict(c), 'numbers of curves and channels differ')
            res.sample({'curves_for': SC, 'sc_channels': spell(SC, [i % 2 for i in range(k)]), 'requests': len(requests(tier))})
        elif c['kind'] == 'sc-none':
            scl = [curve(j) for j in range(4)]
            for req, cols in requests(tier):
                rc = list(range(4)) if cols is None else cols
                judge(res, 'sc-none', 'to_mef(sample, channels=%r, 4 curves, sc_channels=None)' % (req,), d, base,
                      lambda: to_mef(d, req, scl), list(range(4)), rc, dict(c), None)
            for n in (1, 2, 3, 5):
                judge(res, 'sc-none', 'to_mef(sample, 0, %d curves, sc_channels=None)' % n, d, base,
                      lambda: to_mef(d, 0, [curve(0)] * n), [], [], dict(c), 'numbers of curves and channels differ')
            res.sample({'sc_channels': None, 'requests': len(requests(tier))})
        elif c['kind'] == 'layouts':
            # the same curves and channel NAMES applied, one after the other, to samples with different column layouts
            samples = [('full', d), ('reordered', d[:, ['CH3', 'CH4', 'CH1', 'CH2']]), ('subset', d[:, ['CH4', 'CH2', 'CH3']]), ('reversed', d[:, ::-1]),
                       ('no events', d[:0]), ('one event', d[3:4, ::-1])]
            import functools
            for SC in ([2, 1], [3, 2, 1], [1]):
                scn = [NAMES[j] for j in SC]
                scl = [curve(j) for j in SC]
                part = functools.partial(to_mef, sc_list=scl, sc_channels=scn)
                for order in itertools.permutations(range(len(samples)), 2):
                    for idx in order:
                        lname, smp = samples[idx]
                        names_here = list(smp.channels)
                        b2 = np.array(smp.view(np.ndarray))
                        for req in (None, scn[0], [scn[-1]], list(reversed(scn))):
                            rc_names = scn if req is None else ([req] if isinstance(req, str) else req)
                            what = 'to_mef(%s sample %r, channels=%r, sc_channels=%r) after the same call on another layout' % (lname, names_here, req, scn)
                            try:
                                t = part(smp, req)
                            except Exception as e:
                                res.violation('layouts:raises:%s' % type(e).__name__, '%s raised %s: %s' % (what, type(e).__name__, e), dict(c))
                                continue
                            a = np.asarray(t)
                            okl = True
                            for col, nm in enumerate(names_here):
                                j = NAMES.index(nm)
                                exp = P[j] * b2[:, col] + Q[j] if nm in rc_names else b2[:, col]
                                if a[:, col].tobytes() != np.asarray(exp, dtype=np.float64).tobytes():
                                    res.violation('layouts:paired-wrong', '%s: channel %s is %s..., expected %s...' % (what, nm, a[:2, col].tolist(), np.asarray(exp)[:2].tolist()), dict(c))
                                    okl = False
                                    break
                            if okl:
                                res.ok('layouts:converted', True)
            # a calibration covering a channel that the sample does not have (in any position of the curve list) is refused
            sub = d[:, ['CH4', 'CH2', 'CH3']]
            sbase = np.array(sub.view(np.ndarray))
            for SC in ([0, 2], [2, 0], [1, 0, 3], [0, 1, 2, 3], [3, 0], [0]):
                scn = [NAMES[j] for j in SC]
                scl = [curve(j) for j in SC]
                for req in (None, 'CH3', ['CH4'], ['CH2', 'CH3']):
                    what = 'to_mef(sample with channels %r, channels=%r, curves for %r)' % (list(sub.channels), req, scn)
                    try:
                        t = to_mef(sub, req, scl, scn)
                    except Exception:
                        res.ok('layouts:missing-channel-refused', True)
                        continue
                    res.violation('layouts:missing-channel-accepted', '%s returned data although the curve list names CH1, which the sample does not have' % what, dict(c))
            res.sample({'layouts': [s_[0] for s_ in samples], 'sc_channels': 'by name'})
        elif c['kind'] == 'array':
            arr = base.copy()
            for SC in ordered_subsets(mink=1, maxk=3):
                scl = [curve(j) for j in SC]
                for req, cols in requests(tier, named=False):
                    rc = list(SC) if cols is None else cols
                    unc = [j for j in rc if j not in SC]
                    judge(res, 'array', 'to_mef(array, channels=%r, curves for %r, sc_channels=%r)' % (req, SC, SC), arr, base,
                          lambda: to_mef(arr, req, scl, SC), SC, rc, dict(c), 'channel(s) %r have no curve' % unc if unc else None)
            if not np.array_equal(arr, base):
                res.violation('array:input-changed', 'to_mef changed its input array', dict(c))
            res.sample({'container': 'plain ndarray'})
        elif c['kind'] == 'nonfinite':
            # curves that are not finite on some events (logarithm of zero / of a negative value): the channel holds exactly what its
            # curve returns, NaN and inf included
            arr = np.array([[0.0, -3.0, 5.0, 2.0], [4.0, 0.0, 7.0, 9.0], [-1.0, 6.0, 0.0, 1.0], [8.0, 2.0, 3.0, 0.0]])
            lay = dict(datatype='D', bits=[64] * 4, ranges=[1024] * 4, events=[[fcsgen.float_bits(x, 'D') for x in r] for r in arr.tolist()], byteord='1,2,3,4')
            pn = os.path.join(scratch(), 'c06n.fcs')
            buf, _ = fcsgen.build(lay)
            with open(pn, 'wb') as f:
                f.write(buf)
            import FlowCal as _F
            dn = _F.io.FCSData(pn)
            fns = [np.log, lambda x: 1.0 / x, np.sqrt, lambda x: np.log10(x) * 2.0]
            for tgt, label in ((dn, 'sample'), (arr.copy(), 'array')):
                for S in ([0], [1, 0], [2, 3, 1], [3, 2, 1, 0]):
                    scl = [fns[j] for j in S]
                    for req in (None, [S[-1]], list(reversed(S))):
                        rc = S if req is None else req
                        what = 'to_mef(%s with zeros and negative events, channels=%r, curves log / 1/x / sqrt / log10 for %r)' % (label, req, S)
                        try:
                            with np.errstate(all='ignore'):
                                t = np.asarray(to_mef(tgt, req, scl, list(S)))
                                exp = arr.copy()
                                for j in rc:
                                    exp[:, j] = fns[j](arr[:, j])
                        except Exception as e:
                            res.violation('nonfinite:raises:%s' % type(e).__name__, '%s raised %s: %s' % (what, type(e).__name__, e), dict(c))
                            continue
                        if t.tobytes() != exp.tobytes() and not np.array_equal(t, exp, equal_nan=True):
                            bad = [j for j in range(4) if not np.array_equal(t[:, j], exp[:, j], equal_nan=True)]
                            res.violation('nonfinite:values', '%s: channel %d is %s, its curve gives %s' % (what, bad[0], t[:, bad[0]].tolist(), exp[:, bad[0]].tolist()), dict(c))
                        else:
                            res.ok('nonfinite', True)
            res.sample({'curves': 'log, 1/x, sqrt, 2 log10', 'events': 'zeros and negative values in every channel'})
        elif c['kind'] == 'shared-and-single':
            # (a) one curve OBJECT listed for several channels (one calibration shared by two detectors): every listed channel is converted once
            # (b) events held in single precision: each converted value is the curve evaluated on that value in double precision
            f_ = lambda x: 1.1 * x + 0.3
            g_ = lambda x: np.sign(x) * np.exp(2.0) * np.abs(x) ** 0.95
            arr64 = np.array(base, dtype=np.float64) + 0.37
            conts = [('array', arr64, False), ('float32 array', arr64.astype(np.float32), False)]
            lay32 = dict(datatype='F', bits=[32] * 4, ranges=[1024] * 4, byteord='1,2,3,4',
                         events=[[fcsgen.float_bits(float(np.float32(x)), 'F') for x in r] for r in arr64.tolist()])
            p32 = os.path.join(scratch(), 'c06_f32.fcs')
            buf, _ = fcsgen.build(lay32)
            with open(p32, 'wb') as fh:
                fh.write(buf)
            conts += [('float32 sample', FlowCal.io.FCSData(p32), True), ('sample', d, True)]
            for label, data, named in conts:
                vals = np.array(np.asarray(data), dtype=np.float64)          # exact upcast of whatever the container holds
                for scl, scch, reqs in (([f_, g_, f_], [0, 1, 2], [None, [2], [0, 2], [2, 1, 0], 2]),
                                        ([g_, g_], [3, 1], [None, [1], [3, 1], 3]),
                                        ([f_, f_, f_, f_], [0, 1, 2, 3], [None, [3, 0]])):
                    fn_of = dict(zip(scch, scl))
                    ch_arg = [NAMES[j] for j in scch] if named else list(scch)
                    for req in reqs:
                        cols = list(scch) if req is None else ([req] if isinstance(req, int) else list(req))
                        rq = req if (req is None or not named) else ([NAMES[j] for j in req] if isinstance(req, list) else NAMES[req])
                        what = 'to_mef(%s, channels=%r, %d curves (%s) for %r)' % (label, rq, len(scl), 'one object listed %d times' % max(scl.count(x) for x in scl), ch_arg)
                        one = dict(c)
                        try:
                            t = np.asarray(to_mef(data, rq, list(scl), ch_arg))
                        except Exception as e:
                            res.violation('shared:raises:%s' % type(e).__name__, '%s raised %s: %s' % (what, type(e).__name__, e), one)
                            continue
                        bad = None
                        if t.dtype != np.float64 or t.shape != vals.shape:
                            bad = 'returned dtype %s shape %s' % (t.dtype, t.shape)
                        else:
                            for j in range(4):
                                want = np.asarray(fn_of[j](vals[:, j]), dtype=np.float64) if j in cols else vals[:, j]
                                if t[:, j].tobytes() != want.tobytes():
                                    bad = 'channel %d is %s..., %s' % (j, t[:2, j].tolist(), ('its curve evaluated on the (double precision) values gives %s...' % want[:2].tolist()) if j in cols else 'it was not requested')
                                    break
                        if bad:
                            res.violation('shared:%s' % ('float32' if 'float32' in label else 'value'), '%s: %s' % (what, bad), one)
                        else:
                            res.ok('shared', True)
            res.sample({'containers': [x[0] for x in conts], 'curve lists': 'f g f / g g / f f f f'})
        elif c['kind'] == 'big':
            # many events (a conversion that works through the events in blocks has seams at multiples of its block size)
            n = c['n']
            N0 = d.shape[0]
            idx = np.arange(n) % N0
            big_s = d[idx]
            big_a = base[idx].copy()
            for label, data, named in (('sample', big_s, True), ('array', big_a, False)):
                bb = np.array(np.asarray(data))
                for SC, req, rc in (([2, 0], None, [2, 0]), ([0, 1, 2, 3], [3, 1], [3, 1]), ([1], 1, [1])):
                    scl = [curve(j) for j in SC]
                    scch = [NAMES[j] for j in SC] if named else list(SC)
                    rq = req if not named or req is None else ([NAMES[j] for j in req] if isinstance(req, list) else NAMES[req])
                    judge(res, 'big', 'to_mef(%s with %d events, channels=%r, curves for %r)' % (label, n, rq, SC), data, bb,
                          lambda: to_mef(data, rq, scl, scch), SC, rc, dict(c), None)
            res.sample({'events': n})
        elif c['kind'] == 'degenerate':
            # conversion and refusal do not depend on how many events the sample holds
            sub = c['sub']
            dd = {'no events (slice)': lambda: d[:0], 'no events (mask)': lambda: d[np.asarray(d[:, 0]) < 0], 'one event': lambda: d[4:5],
                  'two events': lambda: d[[7, 2]], 'three events': lambda: d[5:8], 'no events (array)': lambda: base[:0].copy(), 'one event (array)': lambda: base[4:5].copy()}[sub]()
            db = np.array(np.asarray(dd))
            named = hasattr(dd, 'channels')
            for SC in ordered_subsets(mink=1, maxk=3):
                scl = [curve(j) for j in SC]
                for scch in ([list(SC), [NAMES[j] for j in SC]] if named else [list(SC)]):
                    for req, cols in requests('quick', named=named):
                        rc = list(SC) if cols is None else cols
                        unc = [j for j in rc if j not in SC]
                        judge(res, 'degenerate', 'to_mef(sample with %s, channels=%r, curves for %r, sc_channels=%r)' % (sub, req, SC, scch), dd, db,
                              lambda: to_mef(dd, req, scl, scch), SC, rc, dict(c), 'channel(s) %r have no curve' % unc if unc else None)
                    if named and scch == list(SC):
                        # the same with every channel counted from the last one (request and curve list in the same convention)
                        negsc = [j - 4 for j in SC]
                        for req, rc in [(negsc[0], [SC[0]]), (list(negsc), list(SC)), (negsc[::-1], list(SC)[::-1]), (None, list(SC)), ([negsc[-1]], [SC[-1]])]:
                            judge(res, 'degenerate-neg', 'to_mef(sample with %s, channels=%r, curves for %r, sc_channels=%r)' % (sub, req, SC, negsc), dd, db,
                                  lambda: to_mef(dd, req, scl, negsc), SC, rc, dict(c), None)
                        unc_j = [j for j in range(4) if j not in SC]
                        if unc_j:
                            judge(res, 'degenerate-neg', 'to_mef(sample with %s, channels=%r, curves for %r, sc_channels=%r)' % (sub, unc_j[0] - 4, SC, negsc), dd, db,
                                  lambda: to_mef(dd, unc_j[0] - 4, scl, negsc), SC, [unc_j[0]], dict(c), 'channel %d has no curve' % unc_j[0])
                    for wrong in (scl[:-1], scl + [curve(0)]):
                        judge(res, 'degenerate', 'to_mef(sample with %s, %r, %d curves, sc_channels=%r)' % (sub, scch[:1], len(wrong), scch), dd, db,
                              lambda: to_mef(dd, scch[:1], wrong, scch), SC, [], dict(c), 'numbers of curves and channels differ')
            res.sample({'sample': sub, 'curves': 'ordered subsets of size <= 3', 'requests': len(requests('quick', named=named))})
        else:
            run_partial(res, c, d, base, tier)
    return res


def run_partial(res, c, d, base, tier):
    """the functools.partial returned by get_transform_fxn fixes the curve list and its channels"""
    import FlowCal
    beads = d
    # stub stages: clustering returns 3 fake populations; fitting returns the tagged curve of the channel being fitted
    n = beads.shape[0]
    labels = np.array([i % 3 for i in range(n)])
    for MC in ordered_subsets(mink=1, maxk=3):
        for pat in ([0] * len(MC), [1] * len(MC), [i % 2 for i in range(len(MC))]):
            mef_channels = spell(MC, pat)
            mef_values = [[10.0, 100.0, 1000.0]] * len(MC)
            calls = []

            def fit(fl_rfi, fl_mef, calls=calls, MC=MC):
                j = MC[len(calls)]
                calls.append(j)
                return (curve(j), curve(j), [P[j], Q[j]], 'stub', ['p', 'q'])
            caller_channels = list(mef_channels)          # the caller's own list objects, changed after the call below
            caller_values = [list(v) for v in mef_values]
            try:
                tf = FlowCal.mef.get_transform_fxn(
                    beads, caller_values if len(MC) > 1 else caller_values[0], caller_channels if len(MC) > 1 else caller_channels[0],
                    clustering_fxn=lambda data, n_clusters, **kw: labels,
                    clustering_channels=[0, 1],
                    selection_fxn=None, fitting_fxn=fit)
            except Exception as e:
                res.violation('partial:build:%s' % type(e).__name__, 'get_transform_fxn(mef_channels=%r) with stub stages raised %s: %s' % (
                    mef_channels, type(e).__name__, e), dict(c))
                continue
            # the returned function applied to a sample whose columns are arranged differently from the bead file
            if all(isinstance(x, str) for x in mef_channels):
                d_re = d[:, ['CH4', 'CH3', 'CH2', 'CH1']]
                b_re = np.array(d_re.view(np.ndarray))
                try:
                    t_re = np.asarray(tf(d_re, None))
                    for col, nm in enumerate(d_re.channels):
                        j = NAMES.index(nm)
                        exp = P[j] * b_re[:, col] + Q[j] if j in MC else b_re[:, col]
                        if t_re[:, col].tobytes() != np.asarray(exp, dtype=np.float64).tobytes():
                            res.violation('partial-layout:paired-wrong', 'transform from get_transform_fxn(mef_channels=%r) applied to a sample with columns %r: channel %s is not converted with its own curve / not left alone' % (
                                mef_channels, list(d_re.channels), nm), dict(c))
                            break
                    else:
                        res.ok('partial-layout', True)
                except Exception as e:
                    res.violation('partial-layout:raises:%s' % type(e).__name__, 'transform from get_transform_fxn(mef_channels=%r) applied to a sample with columns %r raised %s: %s' % (
                        mef_channels, list(d_re.channels), type(e).__name__, e), dict(c))
            # calibrated by POSITION: the transformation applies to a plain array with the same columns as well
            if all(isinstance(x, int) for x in mef_channels):
                for req, cols in requests('quick', named=False):
                    rc = list(MC) if cols is None else cols
                    unc = [j for j in rc if j not in MC]
                    judge(res, 'partial-array', 'transform from get_transform_fxn(mef_channels=%r) applied to a plain array, channels=%r' % (mef_channels, req),
                          base, base, lambda: tf(base.copy(), req), MC, rc, dict(c), 'channel(s) %r were not calibrated' % unc if unc else None)
            for phase in ('fresh', 'after the caller changed its lists'):
                for req, cols in requests('quick'):
                    rc = list(MC) if cols is None else cols
                    unc = [j for j in rc if j not in MC]
                    judge(res, 'partial' if phase == 'fresh' else 'partial-aliasing',
                          'transform from get_transform_fxn(mef_channels=%r) called with channels=%r (%s)' % (mef_channels, req, phase),
                          d, base, lambda: tf(d, req), MC, rc, dict(c), 'channel(s) %r were not calibrated' % unc if unc else None)
                # the returned function must have fixed its curve list and channels: later changes of the caller's lists are invisible
                caller_channels.reverse()
                caller_channels.append('CH4' if 3 not in MC else 'CH1')
                for v in caller_values:
                    v[:] = [7.0] * len(v)
    res.sample({'via': 'mef.get_transform_fxn partial', 'mef_channels': 'all ordered subsets of size <= 3'})
