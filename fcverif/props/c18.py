"""C18 -- the logicle scale is a strictly increasing bijection with an accurate inverse (E1, lattice)."""
import math
import os
import warnings

import numpy as np

from .. import fcsgen, logicleref
from ..runner import Result, scratch

ID = 'C18'
LEVEL = 'exploration'
TECHNIQUE = ('exhaustive enumeration of a (T, M, W) lattice x a fine display grid on [0, M]: biexponential equation against a '
             'bisection/expm1 reference, strict monotonicity, zero at W, inverse error and monotonicity; parameter derivation from '
             'data over data-set shapes (negatives, arrays vs samples, single vs list); refusals; axis limit clamping')
RULE = ('one evaluation = one (T, M, W) triple checked on the whole display grid, or one data-derived parameter case; every '
        'lattice point exactly once (the seed shifts the lattice phase); non-trivial = W > 0 or a data-derived case; distinct by construction')
ASSUMPTIONS = ['lattice over real parameters; display grid of 2001 (quick) / 8001 (thorough) points',
               'equation tolerance 1e-6 of max(|x|, span): the property names no tolerance and the implementation\'s p**2 terms cancel for W >> 1 (observed up to 1e-8); points beyond 1e-9 are counted as an observation',
               'parameters derived from single-precision events are compared at 1e-6, from double-precision events at 1e-9']
CHUNK = 4

TS = [1, 10, 100, 1000, 1023, 1e4, 262144, 1e6, 1e8]
MS = [0.2, 0.5, 1, 2, 4.5, 6, 8, 12]
WR = [0, 1e-9, 1e-6, 0.01, 0.1, 0.25, 0.5, 1, 1.5]


def cases(tier, seed):
    ph = (seed * 0.37) % 1.0
    shifts = [0.0] if not seed else [0.0, ph]
    if tier == 'thorough':
        shifts = [0.0, 0.5, ph] if seed else [0.0, 0.5]
    for sh in shifts:
        for T in TS:
            for M in MS:
                # shifted lattices stay inside the property's domain: T <= 1e8, M <= 12, W <= 1.5 M
                T2 = min(T * (1 + 0.731 * sh), 1e8)
                M2 = min(M * (1 + 0.317 * sh), 12.0)
                yield dict(kind='triple', T=T2, M=M2, wr=[min(w * (1 + 0.5 * sh), 1.5) if w else 0 for w in WR],
                           n=2001 if tier == 'quick' else 8001)
    yield dict(kind='invalid')
    yield dict(kind='inttypes')
    for neg in (None, -1, -30, -5000, -0.01):
        for cont in ('fcs', 'array', 'fcs-list', 'array-list', 'fcs-1d', 'fcs-list-rev', 'array-list-rev', 'fcs-list3', 'array-list3', 'rfi', 'shifted',
                     'mixed-array-first', 'mixed-fcs-first', 'mixed3'):
            yield dict(kind='derive', neg=neg, cont=cont, dt='F')
            yield dict(kind='derive', neg=neg, cont=cont, dt='D')
    yield dict(kind='axis')


def bounds(tier, seed):
    return {'T': TS, 'M': MS, 'W_over_M': WR, 'display_points': 2001 if tier == 'quick' else 8001}


def run_triple(c, res):
    import FlowCal
    T, M = c['T'], c['M']
    n = c['n']
    for wr in c['wr']:
        W = wr * M
        one = dict(kind='triple', T=T, M=M, wr=[wr], n=n)
        what = 'logicle(T=%r, M=%r, W=%r)' % (T, M, W)
        try:
            t = FlowCal.plot._LogicleTransform(T=T, M=M, W=W)
        except Exception as e:
            res.violation('construct:%s' % type(e).__name__, '%s raised %s: %s' % (what, type(e).__name__, e), one)
            continue
        s = np.linspace(0.0, M, n)
        x = np.asarray(t.transform_non_affine(s), dtype=float)
        p = logicleref.p_of_W(W)
        ref = np.array([logicleref.biexp(float(si), T, M, W, p) for si in s])
        span = ref[-1] - ref[0]
        err = np.abs(x - ref)
        tol = 1e-6 * np.maximum(np.abs(ref), span)
        res.notes['display points where the implementation differs from the reference by more than 1e-9 of max(|x|, span) (cancellation of the p**2 terms)'] += int(np.sum(err > 1e-9 * np.maximum(np.abs(ref), span)))
        if not np.all(np.isfinite(x)) or np.any(err > tol):
            i = int(np.argmax(err - tol))
            res.violation('equation', '%s: transform(%r) = %r, the biexponential equation gives %r (span %r)' % (what, float(s[i]), float(x[i]), float(ref[i]), float(span)), one)
            continue
        if np.any(np.diff(x) <= 0):
            i = int(np.nonzero(np.diff(x) <= 0)[0][0])
            res.violation('not-increasing', '%s: transform(%r) = %r >= transform(%r) = %r' % (what, float(s[i]), float(x[i]), float(s[i + 1]), float(x[i + 1])), one)
            continue
        xw = float(np.asarray(t.transform_non_affine(np.array([W])))[0]) if W <= M else None
        xw_any = float(np.asarray(t.transform_non_affine(np.array([W])))[0])
        if abs(xw_any) > 1e-9 * abs(span):
            res.violation('zero-at-W', '%s: transform(W) = %r, expected 0 (span %r)' % (what, xw_any, float(span)), one)
            continue
        inv = t.inverted()
        back = inv.transform_non_affine(x)
        masked = np.ma.getmaskarray(back)
        if masked.any():
            i = int(np.nonzero(masked)[0][0])
            res.violation('inverse-masked', '%s: inverse of transform(%r) is masked as out of range' % (what, float(s[i])), one)
            continue
        back = np.asarray(back, dtype=float)
        ierr = np.abs(back - s)
        if np.any(ierr > 1e-4 * M):
            i = int(np.argmax(ierr))
            res.violation('inverse-error', '%s: inverse(transform(%r)) = %r, error %r > 1e-4*M' % (what, float(s[i]), float(back[i]), float(ierr[i])), one)
            continue
        if np.any(np.diff(back) < 0):
            res.violation('inverse-decreasing', '%s: the inverse is not non-decreasing' % what, one)
            continue
        # inverse on a grid in data space (between tabulation points)
        xs = np.linspace(float(x[0]), float(x[-1]), 997)
        bs = np.asarray(inv.transform_non_affine(xs), dtype=float)
        if np.any(np.diff(bs) < 0) or np.ma.getmaskarray(inv.transform_non_affine(xs)).any():
            res.violation('inverse-decreasing', '%s: the inverse is not non-decreasing / masks in-range data values' % what, one)
            continue
        # data values held in integer types (raw channel numbers) and single numbers get the display coordinate of the same value as a float
        if T >= 10:
            iv = np.unique(np.round(np.linspace(0, min(T, 60000.0), 41))).astype(np.int64)
            ref_i = np.asarray(inv.transform_non_affine(iv.astype(float)), dtype=float)
            badi = None
            for typ in (np.int64, np.int32, np.uint16, np.float32):
                got_i = np.asarray(inv.transform_non_affine(iv.astype(typ)), dtype=float)
                if np.any(np.abs(got_i - ref_i) > 1e-4 * M):
                    badi = typ.__name__
                    break
            if badi is None:
                sc = float(np.asarray(inv.transform_non_affine(np.int64(iv[len(iv) // 2]))))
                if abs(sc - ref_i[len(iv) // 2]) > 1e-4 * M:
                    badi = 'np.int64 scalar'
            if badi:
                res.violation('inverse-integer-input', '%s: the inverse of whole-number data values held as %s differs from the inverse of the same values as floats by more than 1e-4*M' % (what, badi), one)
                continue
        # the inverse as an axis gets it (through the registered scale object): the same accuracy
        try:
            sc_tr = FlowCal.plot._LogicleScale(None, T=T, M=M, W=W).get_transform()
            back_s = np.asarray(sc_tr.transform_non_affine(x), dtype=float)
        except Exception as e:
            res.violation('scale-inverse-raises:%s' % type(e).__name__, '%s: the transform of the registered scale raised %s: %s' % (what, type(e).__name__, e), one)
            continue
        serr = np.abs(back_s - s)
        if not np.all(np.isfinite(back_s)) or np.any(serr > 1e-4 * M) or np.any(np.diff(back_s) < 0):
            i = int(np.argmax(np.where(np.isfinite(serr), serr, np.inf)))
            res.violation('scale-inverse-error', "%s: the inverse used by an axis (set_xscale('logicle')) maps transform(%r) to %r, error %r > 1e-4*M (or is not non-decreasing)" % (
                what, float(s[i]), float(back_s[i]), float(serr[i])), one)
            continue
        res.counters['max_inverse_error_over_M_x1e9'] = max(res.counters['max_inverse_error_over_M_x1e9'], int(float(ierr.max()) / M * 1e9), int(float(serr.max()) / M * 1e9))
        res.ok('triple', W > 0)
    res.sample({'T': T, 'M': M, 'W_over_M': c['wr'], 'display_points': n})


def run_inttypes(res):
    """valid triples given as whole numbers in integer types (Python int, NumPy integers) and as NumPy floats: the same scale as with floats,
    usable as a transform, as its inverse and on an axis"""
    import matplotlib
    matplotlib.use('Agg')
    import matplotlib.pyplot as plt
    import FlowCal
    triples = [(1000, 4, 1), (262144, 5, 2), (1000, 4, 4), (100, 2, 3), (10, 1, 1), (1000, 4, 0), (65536, 6, 1)]
    for (T, M, W) in triples:
        ref_t = FlowCal.plot._LogicleTransform(T=float(T), M=float(M), W=float(W))
        s = np.linspace(0.0, float(M), 41)
        ref_x = np.asarray(ref_t.transform_non_affine(s), dtype=float)
        for tname, conv in (('int', int), ('np.int64', np.int64), ('np.int32', np.int32), ('np.float32', np.float32), ('np.float64', np.float64), ('mixed', None)):
            kw = dict(T=conv(T), M=conv(M), W=conv(W)) if conv else dict(T=float(T), M=int(M), W=np.int64(W))
            one = dict(kind='inttypes')
            what = 'logicle(T=%r, M=%r, W=%r) with the parameters given as %s' % (T, M, W, tname)
            try:
                t = FlowCal.plot._LogicleTransform(**kw)
                x = np.asarray(t.transform_non_affine(s), dtype=float)
                x_int = [float(np.asarray(t.transform_non_affine(k_))) for k_ in range(0, int(M) + 1)]       # display coordinates as Python ints
                inv = t.inverted()
                back = np.asarray(inv.transform_non_affine(ref_x), dtype=float)
                fig = plt.figure()
                try:
                    ax = fig.add_subplot(111)
                    ax.set_xscale('logicle', **kw)
                    ax.plot([1.0, T / 2.0], [0, 1])
                    fig.canvas.draw()
                    ax_back = np.asarray(ax.xaxis.get_transform().transform_non_affine(ref_x), dtype=float)
                finally:
                    plt.close(fig)
            except Exception as e:
                res.violation('inttypes:raises:%s' % type(e).__name__, '%s raised %s: %s' % (what, type(e).__name__, e), one)
                continue
            want_int = [float(np.asarray(ref_t.transform_non_affine(np.array([float(k_)])))[0]) for k_ in range(0, int(M) + 1)]
            span = abs(ref_x[-1] - ref_x[0])
            if np.any(np.abs(x - ref_x) > 1e-6 * np.maximum(np.abs(ref_x), span)) or any(abs(a_ - b_) > 1e-6 * max(abs(b_), span) for a_, b_ in zip(x_int, want_int)):
                res.violation('inttypes:transform', '%s: the transform differs from the one with float parameters' % what, one)
            elif np.any(np.abs(back - s) > 1e-4 * M) or np.any(np.abs(ax_back - s) > 1e-4 * M):
                res.violation('inttypes:inverse', '%s: the inverse (direct or through an axis) is off by more than 1e-4*M' % what, one)
            else:
                res.ok('inttypes', True)
    res.sample({'triples': triples, 'types': ['int', 'np.int64', 'np.int32', 'np.float32', 'np.float64', 'mixed']})


def run_invalid(res):
    import FlowCal
    L = FlowCal.plot._LogicleTransform
    for kw in (dict(T=0, M=4.5, W=0.5), dict(T=-1, M=4.5, W=0.5), dict(T=1000, M=0, W=0), dict(T=1000, M=-2, W=0),
               dict(T=1000, M=4.5, W=-0.1), dict(T=1000, M=4.5, W=-1e-9), dict(T=-5, M=-5, W=-5)):
        try:
            L(**kw)
        except Exception:
            res.ok('refused', True)
            continue
        res.violation('invalid-accepted', 'logicle(%r) did not raise' % (kw,), dict(kind='invalid'))
    # invalid parameters given together with data, and data from which no valid T can be derived (no positive event, no range)
    good = np.array([1.0, 50.0, 700.0])
    for kw in (dict(T=0), dict(T=-3.0), dict(M=0), dict(M=-1), dict(W=-0.5), dict(T=0, M=0, W=0)):
        try:
            t = L(data=good, **kw)
        except Exception:
            res.ok('refused', True)
            continue
        res.violation('invalid-accepted', 'logicle(data=[1, 50, 700], %r) did not raise' % (kw,), dict(kind='invalid'))
    for name, arr_ in (('all zero', np.zeros(5)), ('all negative', np.array([-1.0, -20.0, -3.5])), ('zero and negative', np.array([0.0, -2.0])),
                       ('all zero 2-D', np.zeros((4, 2))), ('list of all-zero arrays', [np.zeros(3), np.zeros(2)])):
        try:
            t = L(data=arr_, channel=0 if name == 'all zero 2-D' else None)
        except Exception:
            res.ok('refused', True)
            continue
        if not (t.T > 0 and t.M > 0 and t.W >= 0):
            res.violation('invalid-derived', 'logicle(data=%s) was accepted with (T, M, W) = %r' % (name, (t.T, t.M, t.W)), dict(kind='invalid'))
        else:
            res.ok('derived-valid', True)
    # defaults without data
    t = L()
    if (t.T, t.M, t.W) != (262144, 4.5, 0.5):
        res.violation('defaults', 'default parameters are %r' % ((t.T, t.M, t.W),), dict(kind='invalid'))
    else:
        res.ok('defaults', True)
    res.sample({'invalid': 'T<=0, M<=0, W<0'})


def make_data(neg, which=0, dt='F'):
    """float sample with 3 channels, ranges 1024 / 262144 / 4096; optionally negative events in every channel"""
    import FlowCal
    ranges = [1024, 262144, 4096]
    rows = [[5.0, 100.0, 7.0], [900.0, 2e5, 3000.0], [17.5, 40.0, 1.0], [1500.0, 12.0, 4000.0]]
    if neg is not None:
        rows.append([float(neg) / (which + 1), float(neg) * 2, float(neg) / 3])
        rows.append([float(neg) / 10, -0.5, -0.25])
    lay = dict(datatype=dt, bits=[32 if dt == 'F' else 64] * 3, ranges=ranges, byteord='1,2,3,4',
               events=[[fcsgen.float_bits(x, dt) for x in r] for r in rows])
    buf, _ = fcsgen.build(lay)
    p = os.path.join(scratch(), 'c18_%d.fcs' % which)
    with open(p, 'wb') as f:
        f.write(buf)
    return FlowCal.io.FCSData(p), ranges


def rfi_sample():
    import FlowCal
    rows = [[5, 100, 7], [900, 200, 3000], [17, 40, 1], [1000, 12, 4000], [0, 0, 0]]
    lay = dict(datatype='I', bits=[16] * 3, ranges=[1024, 256, 4096], pne=['4,1', '2.5,0', '3,0.5'], byteord='1,2,3,4', events=rows)
    buf, _ = fcsgen.build(lay)
    p = os.path.join(scratch(), 'c18_rfi.fcs')
    with open(p, 'wb') as f:
        f.write(buf)
    return FlowCal.transform.to_rfi(FlowCal.io.FCSData(p))


def run_derive(c, res):
    import FlowCal
    L = FlowCal.plot._LogicleTransform
    neg, cont = c['neg'], c['cont']
    dt = c.get('dt', 'F')
    ptol = 1e-6 if dt == 'F' else 1e-9        # single-precision events: W is legitimately evaluated in single precision
    d0, ranges = make_data(neg, 0, dt)
    d1, _ = make_data(None if neg is None else neg * 3, 1, dt)
    dn, _ = make_data(None, 2, dt)
    a0, a1 = np.array(d0.view(np.ndarray), dtype=float), np.array(d1.view(np.ndarray), dtype=float)
    an = np.array(dn.view(np.ndarray), dtype=float)
    for ch in range(3):
        for ovr in ({}, {'T': 5000.0}, {'M': 5.5}, {'W': 0.75}, {'T': 300.0, 'M': 3.0}, {'W': 0.0}, {'W': 0}, {'T': 1.0}, {'M': 0.3}, {'T': 1e6}, {'T': 5e7, 'W': 0.5}):
            if cont == 'fcs':
                data, cols, rng = d0, [a0[:, ch]], [ranges[ch] - 1]
                chan = ch
            elif cont == 'array':
                data, cols, rng = a0, [a0[:, ch]], [None]
                chan = ch
            elif cont == 'fcs-list':
                data, cols, rng = [d0, d1], [a0[:, ch], a1[:, ch]], [ranges[ch] - 1] * 2
                chan = 'CH%d' % (ch + 1)
            elif cont == 'array-list':
                data, cols, rng = [a0, a1], [a0[:, ch], a1[:, ch]], [None, None]
                chan = ch
            elif cont in ('rfi', 'shifted'):
                # samples whose range does not start at 0: RFI of a log amplifier ([1, 10**a0*(r-1)/r]); background-subtracted data
                if cont == 'rfi':
                    data = rfi_sample()
                else:
                    data = FlowCal.transform.transform(d0, [0, 1, 2], lambda x: x - 100.0)
                arr_ = np.array(data.view(np.ndarray), dtype=float)
                cols, rng = [arr_[:, ch]], [data.range(ch)[1]]
                chan = ch
            elif cont == 'fcs-list-rev':          # the most negative event is NOT in the last sample
                data, cols, rng = [d1, d0], [a1[:, ch], a0[:, ch]], [ranges[ch] - 1] * 2
                chan = ch
            elif cont == 'array-list-rev':
                data, cols, rng = [a1, a0], [a1[:, ch], a0[:, ch]], [None, None]
                chan = ch
            elif cont == 'fcs-list3':             # no negatives / most negative / mildly negative
                data, cols, rng = [dn, d1, d0], [an[:, ch], a1[:, ch], a0[:, ch]], [ranges[ch] - 1] * 3
                chan = 'CH%d' % (ch + 1)
            elif cont == 'array-list3':
                data, cols, rng = [a1, an, a0], [a1[:, ch], an[:, ch], a0[:, ch]], [None] * 3
                chan = ch
            elif cont == 'mixed-array-first':     # samples with and without a known range in one list: the rule applies per sample
                data, cols, rng = [a1, d0], [a1[:, ch], a0[:, ch]], [None, ranges[ch] - 1]
                chan = ch
            elif cont == 'mixed-fcs-first':
                data, cols, rng = [d0, a1], [a0[:, ch], a1[:, ch]], [ranges[ch] - 1, None]
                chan = ch
            elif cont == 'mixed3':
                data, cols, rng = [an, d1, a0], [an[:, ch], a1[:, ch], a0[:, ch]], [None, ranges[ch] - 1, None]
                chan = ch
            else:
                data, cols, rng = d0[:, ch], [a0[:, ch]], [ranges[ch] - 1]
                chan = None
            one = dict(c)
            what = 'logicle(data=%s, channel=%r, %r) with most negative event %r' % (cont, chan, ovr, neg)
            try:
                t = L(data=data, channel=chan, **ovr)
            except Exception as e:
                res.violation('derive:raises:%s' % type(e).__name__, '%s raised %s: %s' % (what, type(e).__name__, e), one)
                continue
            T = ovr.get('T')
            if T is None:
                T = max(float(r) if r is not None else float(np.max(col)) for r, col in zip(rng, cols))
            M = ovr.get('M')
            if M is None:
                M = logicleref.derived_M(T)
            W = ovr.get('W')
            if W is None:
                W = 0.0
                for col in cols:
                    mn = float(np.min(col))
                    W = max(W, logicleref.derived_W(T, M, mn if mn < 0 else None))
            got = (float(t.T), float(t.M), float(t.W))
            exp = (T, M, W)
            if not all(abs(g - e) <= ptol * max(1.0, abs(e)) for g, e in zip(got, exp)):
                res.violation('derive:params', '%s gives (T, M, W) = %r, the documented rules give %r' % (what, got, exp), one)
                continue
            # the same channel counted from the last one (-1 is the last channel), and by position where it was named
            if chan is not None:
                for alt in (ch - a0.shape[1], ch):
                    try:
                        t2 = L(data=data, channel=alt, **ovr)
                        got2 = (float(t2.T), float(t2.M), float(t2.W))
                    except Exception as e:
                        res.violation('derive:channel-spelling-raises:%s' % type(e).__name__, 'logicle(data=%s, channel=%r, %r) raised %s: %s (channel=%r works)' % (cont, alt, ovr, type(e).__name__, e, chan), one)
                        break
                    if got2 != got:
                        res.violation('derive:channel-spelling', 'logicle(data=%s, channel=%r, %r) gives %r, with channel=%r it gives %r' % (cont, alt, ovr, got2, chan, got), one)
                        break
            res.ok('derive:' + cont, True)
    # one list object handed to the transform for every channel in turn (as scatter2d does for the two axes): the list and its
    # elements come back unchanged, and each answer equals the one for a freshly built list
    if cont in ('fcs-list', 'array-list', 'mixed-fcs-first'):
        mk = {'fcs-list': lambda: [d0, d1], 'array-list': lambda: [a0, a1], 'mixed-fcs-first': lambda: [d0, a1]}[cont]
        shared = mk()
        ids = [id(x) for x in shared]
        for chs in ((0, 1, 2), (2, 0, 1)):
            for ch in chs:
                try:
                    t_shared = L(data=shared, channel=ch)
                    t_fresh = L(data=mk(), channel=ch)
                except Exception as e:
                    res.violation('derive:reused-list-raises:%s' % type(e).__name__, 'logicle(data=<the same %s list again>, channel=%d) raised %s: %s' % (cont, ch, type(e).__name__, e), dict(c))
                    break
                if [id(x) for x in shared] != ids:
                    res.violation('derive:list-changed', 'logicle(data=%s list, channel=%d) replaced the elements of the caller\'s list' % (cont, ch), dict(c))
                    break
                if (float(t_shared.T), float(t_shared.M), float(t_shared.W)) != (float(t_fresh.T), float(t_fresh.M), float(t_fresh.W)):
                    res.violation('derive:reused-list', 'logicle(data=<list used before for another channel>, channel=%d) gives %r, a fresh list gives %r' % (
                        ch, (t_shared.T, t_shared.M, t_shared.W), (t_fresh.T, t_fresh.M, t_fresh.W)), dict(c))
                    break
            else:
                continue
            break
        else:
            res.ok('derive:reused-list', True)
    # samples without events (everything gated out): alone with a known range, and anywhere in a list
    if cont in ('fcs', 'fcs-list', 'mixed-fcs-first'):
        e0 = d0[:0]
        combos = [('empty sample alone', e0, [ranges[1] - 1], []), ('empty sample first in a list', [e0, d1], [ranges[1] - 1] * 2, [a1[:, 1]]),
                  ('empty sample last in a list', [d1, e0], [ranges[1] - 1] * 2, [a1[:, 1]]), ('two empty samples', [e0, d1[:0]], [ranges[1] - 1] * 2, [])]
        for label, data_, rng_, cols_ in combos:
            try:
                t = L(data=data_, channel=1)
            except Exception as e:
                res.violation('derive:empty-raises:%s' % type(e).__name__, 'logicle(data=%s, channel=1) raised %s: %s' % (label, type(e).__name__, e), dict(c))
                continue
            T = float(max(rng_))
            M = logicleref.derived_M(T)
            W = 0.0
            for col in cols_:
                mn = float(np.min(col))
                W = max(W, logicleref.derived_W(T, M, mn if mn < 0 else None))
            if not all(abs(g - e_) <= ptol * max(1.0, abs(e_)) for g, e_ in zip((float(t.T), float(t.M), float(t.W)), (T, M, W))):
                res.violation('derive:empty-params', 'logicle(data=%s) gives %r, the documented rules give %r' % (label, (t.T, t.M, t.W), (T, M, W)), dict(c))
            else:
                res.ok('derive:empty', True)
    # events above the top of a known range (compensated data) do not change T: it is the range
    if cont in ('fcs', 'fcs-list'):
        import FlowCal as _F
        over = d0.copy()
        over[0, 1] = 3.1e5
        over[1, 1] = 2.0e6
        over[2, 0] = float(np.nextafter(ranges[0] - 1.0, 1e9))
        for data_, label in ((over, 'a sample with events above its range'), ([d1, over], 'the same in a list')):
            for ch in (0, 1):
                try:
                    t = L(data=data_, channel=ch)
                except Exception as e:
                    res.violation('derive:above-range-raises:%s' % type(e).__name__, 'logicle(data=%s, channel=%d) raised %s: %s' % (label, ch, type(e).__name__, e), dict(c))
                    continue
                if abs(float(t.T) - (ranges[ch] - 1)) > ptol * ranges[ch]:
                    res.violation('derive:above-range-T', 'logicle(data=%s, channel=%d) has T = %r, the channel range is %r' % (label, ch, float(t.T), ranges[ch] - 1), dict(c))
                else:
                    res.ok('derive:above-range', True)
    # multidimensional data without a channel is refused
    if cont in ('fcs', 'array'):
        try:
            L(data=d0 if cont == 'fcs' else a0)
            res.violation('derive:no-channel', 'logicle(data=2-D %s) without channel did not raise' % cont, dict(c))
        except Exception:
            res.ok('refused', True)
    res.sample({'container': cont, 'most_negative_event': neg, 'overrides': ['none', 'T', 'M', 'W', 'T+M']})


def run_axis(res):
    import matplotlib
    matplotlib.use('Agg')
    import matplotlib.pyplot as plt
    import FlowCal
    for T, M, W in ((262144, 4.5, 0.5), (1023, 4.5, 0.0), (1e6, 6.0, 1.25), (262144, 4.5, 0.0), (1000, 4.5, 0.05)):
        # drawing the figure (tick computation) must not change the scale: same parameters and same mapping before and after
        fig = plt.figure()
        try:
            ax = fig.add_subplot(111)
            ax.set_xscale('logicle', T=T, M=M, W=W)
            ax.plot([1.0, T / 2.0], [0, 1])
            tr = ax.xaxis.get_transform()
            xs = np.array([0.0, 1.0, T / 100.0, T / 2.0, T])
            before = np.asarray(tr.transform_non_affine(xs), dtype=float).tolist()
            fig.canvas.draw()
            buf_ = __import__('io').BytesIO()
            fig.savefig(buf_, format='png')
            tr2 = ax.xaxis.get_transform()
            after = np.asarray(tr2.transform_non_affine(xs), dtype=float).tolist()
            lt = tr2.inverted()
            par = (float(lt.T), float(lt.M), float(lt.W))
            if par != (float(T), float(M), float(W)) or before != after:
                res.violation('axis-changed-by-drawing', "set_xscale('logicle', T=%r, M=%r, W=%r): after drawing the scale has (T, M, W) = %r and maps %r to %r (before: %r)" % (
                    T, M, W, par, xs.tolist(), after, before), dict(kind='axis'))
            else:
                res.ok('axis-drawn', True)
        finally:
            plt.close(fig)
        fig = plt.figure()
        try:
            ax = fig.add_subplot(111)
            ax.set_xscale('logicle', T=T, M=M, W=W)
            ax.set_xlim(-1e12, 1e12)
            lo, hi = ax.get_xlim()
            p = logicleref.p_of_W(W)
            elo, ehi = logicleref.biexp(0.0, T, M, W, p), logicleref.biexp(M, T, M, W, p)
            if abs(lo - elo) > 1e-9 * (ehi - elo) or abs(hi - ehi) > 1e-9 * (ehi - elo):
                res.violation('axis-limits', "set_xscale('logicle', T=%r, M=%r, W=%r): limits %r, expected [transform(0), transform(M)] = %r" % (
                    T, M, W, (lo, hi), (elo, ehi)), dict(kind='axis'))
            else:
                res.ok('axis', True)
            ax.set_yscale('logicle', T=T, M=M, W=W)
            ax.set_ylim(elo / 2 if elo > 0 else elo * 0.5, ehi / 2)
            lo, hi = ax.get_ylim()
            if abs(hi - ehi / 2) > 1e-9 * abs(ehi) or abs(lo - (elo * 0.5)) > 1e-9 * abs(ehi - elo):
                res.violation('axis-limits-inside', 'limits inside the range were changed to %r' % ((lo, hi),), dict(kind='axis'))
            else:
                res.ok('axis', True)
        finally:
            plt.close(fig)
    res.sample({'axis': "set_xscale('logicle') limit clamping"})


def run_case(c):
    res = Result()
    with warnings.catch_warnings():
        warnings.simplefilter('ignore')
        k = c['kind']
        if k == 'triple':
            run_triple(c, res)
        elif k == 'invalid':
            run_invalid(res)
        elif k == 'inttypes':
            run_inttypes(res)
        elif k == 'derive':
            run_derive(c, res)
        else:
            run_axis(res)
    return res
