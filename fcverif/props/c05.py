"""C05 -- the density gate keeps the densest whole bins holding the requested share (E1)."""
import bisect
import itertools
import math
import os
import warnings
from fractions import Fraction

import numpy as np

from .. import fcsgen
from ..fingerprint import fp, diff
from ..runner import Result, scratch

ID = 'C05'
LEVEL = 'exploration'
TECHNIQUE = ('exhaustive enumeration of all bin-occupancy patterns over small grids (counts {0..2}^(2x3) quick; {0..2}^(3x3) and '
             '{0..3}^(2x3) thorough) x every gate fraction that makes f*n integral or half-integral x smoothing widths, plus '
             'deviation-bounded event placements on bin edges / outside the grid, bin-specification forms, sample-derived bins and '
             'event permutations; every answer checked against the gate contract with an independent bin assignment and an '
             'independent truncated-Gaussian smoothing')
RULE = ('one evaluation = one density2d call with all contract clauses checked (whole bins, in-grid only, minimal count, density '
        'ordering, re-gating, short form); each occupancy pattern x fraction x sigma exactly once; non-trivial = the gate keeps a '
        'proper non-empty subset of the events; distinct by construction')
ASSUMPTIONS = ['ceil(f*n) is accepted both in exact rational arithmetic and in IEEE double',
               'density ties and differences below 1e-9 of the maximum smoothed density may be ordered either way',
               'the smoothing is the documented Gaussian filter (zero padding, truncated at 6 sigma)']
CHUNK = 1


# ---------------------------------------------------------------------------------------
# references

def assign(v, edges):
    """bin index of v for left-closed bins whose last bin is right-closed; None when outside the grid"""
    if v != v or v < edges[0] or v > edges[-1]:
        return None
    if v == edges[-1]:
        return len(edges) - 2
    return bisect.bisect_right(edges, v) - 1


def smooth(H, sigma):
    """separable truncated Gaussian, zero padding (the documented smoothing), pure Python.
    sigma: scalar or (sigma_x, sigma_y) -- one width per axis of H (axis 0 = first channel); width 0 = no smoothing"""
    nx, ny = len(H), len(H[0])
    if isinstance(sigma, (list, tuple)):
        sx, sy = float(sigma[0]), float(sigma[1])
    else:
        sx = sy = float(sigma)

    def kernel(sg):
        if sg <= 1e-15:
            return 0, [1.0]
        rad = int(6.0 * sg + 0.5)
        w = [math.exp(-0.5 * (k / sg) ** 2) for k in range(-rad, rad + 1)]
        s = sum(w)
        return rad, [x / s for x in w]

    def conv(line, rad, w):
        n = len(line)
        out = []
        for i in range(n):
            acc = 0.0
            for k in range(-rad, rad + 1):
                j = i + k
                if 0 <= j < n:
                    acc += w[k + rad] * line[j]
            out.append(acc)
        return out
    ry, wy = kernel(sy)
    rx, wx = kernel(sx)
    A = [conv(list(map(float, row)), ry, wy) for row in H]                       # along the second channel
    cols = [conv([A[i][j] for i in range(nx)], rx, wx) for j in range(ny)]      # along the first channel
    return [[cols[j][i] for j in range(ny)] for i in range(nx)]


# ---------------------------------------------------------------------------------------

def fractions_for(n):
    fs = {0.0, 1.0}
    for k in range(n):
        fs.add(k / n)
        fs.add((k + 0.5) / n)
    return sorted(fs)


def events_from_counts(counts, xe, ye):
    ev = []
    for bx in range(len(xe) - 1):
        for by in range(len(ye) - 1):
            for _ in range(counts[bx][by]):
                ev.append([(xe[bx] + xe[bx + 1]) / 2.0, (ye[by] + ye[by + 1]) / 2.0])
    return ev


def cases(tier, seed):
    # (grids with a single bin along one axis: 1 x k and k x 1, k up to 6)
    grids = [((2, 3), 2), ((1, 4), 1), ((5, 1), 1), ((1, 6), 1)] if tier == 'quick' else \
        [((2, 3), 2), ((3, 3), 2), ((2, 3), 3), ((1, 4), 3), ((4, 4), 1), ((5, 1), 2), ((1, 6), 2), ((6, 1), 1), ((1, 1), 3), ((1, 2), 3), ((3, 1), 3)]
    for (nx, ny), maxc in grids:
        total = (maxc + 1) ** (nx * ny)
        block = 27 if tier == 'quick' else 81
        for s in range(0, total, block):
            yield dict(kind='patterns', nx=nx, ny=ny, maxc=maxc, start=s, stop=min(total, s + block))
    yield dict(kind='placements', k=2 if tier == 'quick' else 3)
    yield dict(kind='sparse')
    for sub in range(4):
        yield dict(kind='float32', sub=sub)
    yield dict(kind='binspecs')
    for scale in itertools.product(['linear', 'log', 'logicle'], repeat=2):
        yield dict(kind='sample', xscale=scale[0], yscale=scale[1])
    for scale in (('logicle', 'logicle'), ('logicle', 'linear'), ('log', 'logicle')):
        yield dict(kind='sample-sequence', xscale=scale[0], yscale=scale[1])
    yield dict(kind='permutations', tier=tier)
    yield dict(kind='refusals')
    if tier == 'thorough':
        for s in range(8):
            yield dict(kind='continuous', stream=seed * 8 + s)


def bounds(tier, seed):
    return {'occupancy_spaces': '{0..2}^(2x3)' if tier == 'quick' else '{0..2}^(2x3), {0..2}^(3x3), {0..3}^(2x3), {0..3}^(1x4), {0..1}^(4x4)',
            'sigmas': [0.5, 1, 3], 'fractions': '0, 1, k/n, (k+1/2)/n'}


def gate(data, channels, bins, f, sigma, full=True, **kw):
    import FlowCal
    return FlowCal.gate.density2d(data, channels=channels, bins=bins, gate_fraction=f, sigma=sigma, full_output=full, **kw)


def judge(res, sig, what, data, channels, cols, bins_arg, f, sigma, one, expect_edges=None, extra_kw=None, check_regate=True):
    """one call + all contract clauses.  cols: indices of the two gated columns in np.asarray(data).  Returns mask or None."""
    kw = extra_kw or {}
    try:
        bins_given = bins_arg() if callable(bins_arg) else bins_arg
        out = gate(data, channels, bins_given, f, sigma, True, **kw)
        short = gate(data, channels, bins_arg() if callable(bins_arg) else bins_arg, f, sigma, False, **kw)
    except Exception as e:
        res.violation(sig + ':raises:%s' % type(e).__name__, '%s raised %s: %s' % (what, type(e).__name__, e), one)
        return None
    # the reported grid is a record of its own: rescaling the caller's edge arrays afterwards does not change it (and they are two arrays)
    if isinstance(bins_given, (list, tuple, np.ndarray)):
        mine = [e for e in (bins_given if not isinstance(bins_given, np.ndarray) or bins_given.ndim > 1 else [bins_given]) if isinstance(e, np.ndarray) and e.dtype.kind == 'f' and e.size]
        if mine:
            snap = [np.array(e, dtype=float).tolist() for e in out.bin_edges]
            for e in mine:
                e *= 3.0
                e += 1.0
            now = [np.array(e, dtype=float).tolist() for e in out.bin_edges]
            if now != snap or out.bin_edges[0] is out.bin_edges[1]:
                res.violation(sig + ':edges-alias-bins', '%s: the returned bin edges change when the caller rescales its own edge arrays afterwards' % what, one)
                return None
            for e in mine:
                e -= 1.0
                e /= 3.0
    arr = np.asarray(data)
    n = arr.shape[0]
    mask = np.asarray(out.mask)
    if mask.dtype != bool or mask.shape != (n,):
        res.violation(sig + ':maskform', '%s: mask dtype %s shape %s' % (what, mask.dtype, mask.shape), one)
        return None
    xe, ye = [np.asarray(e, dtype=float).tolist() for e in out.bin_edges]
    if expect_edges is not None:
        if xe != list(map(float, expect_edges[0])) or ye != list(map(float, expect_edges[1])):
            res.violation(sig + ':edges', '%s: returned bin edges differ from the requested ones' % what, one)
            return None
    bm = np.asarray(out.bin_mask)
    if bm.shape != (len(xe) - 1, len(ye) - 1) or bm.dtype != bool:
        res.violation(sig + ':binmaskform', '%s: bin_mask shape %s for a %dx%d grid' % (what, bm.shape, len(xe) - 1, len(ye) - 1), one)
        return None
    xs, ys = arr[:, cols[0]].tolist(), arr[:, cols[1]].tolist()
    where = [(assign(x, xe), assign(y, ye)) for x, y in zip(xs, ys)]
    ingrid = [w[0] is not None and w[1] is not None for w in where]
    n_in = sum(ingrid)
    H = [[0] * (len(ye) - 1) for _ in range(len(xe) - 1)]
    for w, ig in zip(where, ingrid):
        if ig:
            H[w[0]][w[1]] += 1
    # (2) no out-of-grid event kept
    for i in range(n):
        if mask[i] and not ingrid[i]:
            res.violation(sig + ':outside-kept', '%s keeps event %d = (%r, %r), which lies outside the binning grid' % (what, i, xs[i], ys[i]), one)
            return None
    # (1) whole bins, in iff bin_mask
    for i in range(n):
        if ingrid[i] and bool(mask[i]) != bool(bm[where[i][0], where[i][1]]):
            res.violation(sig + ':bin-split', '%s: event %d in bin %r is %s but bin_mask there is %s' % (
                what, i, where[i], 'kept' if mask[i] else 'dropped', bool(bm[where[i][0], where[i][1]])), one)
            return None
    kept = int(mask.sum())
    # (3) minimal count
    targets = {int(math.ceil(Fraction(f) * n_in)), int(math.ceil(f * float(n_in)))}
    D = smooth(H, sigma)
    mx = max(max(r) for r in D) or 1.0
    kept_bins = [(bx, by) for bx in range(len(H)) for by in range(len(H[0])) if bm[bx, by]]
    drop_bins = [(bx, by) for bx in range(len(H)) for by in range(len(H[0])) if not bm[bx, by]]
    ok3 = False
    for tgt in targets:
        if tgt == 0:
            ok3 = ok3 or kept == 0
            continue
        if kept < tgt:
            continue
        if not kept_bins:
            continue
        dmin = min(D[bx][by] for bx, by in kept_bins)
        least = [(bx, by) for bx, by in kept_bins if D[bx][by] <= dmin + 1e-9 * mx]
        if any(kept - H[bx][by] < tgt for bx, by in least):
            ok3 = True
    if ok3 and max(targets) == 0 and bm.any():
        res.violation(sig + ':surplus-bin', '%s: nothing has to be kept (%d in-grid events, target 0), yet the bin mask keeps %d bin(s)' % (what, n_in, int(bm.sum())), one)
        return None
    if not ok3:
        res.violation(sig + ':count', '%s keeps %d of %d in-grid events; ceil(f*n) = %s and dropping a least dense kept bin must fall below it' % (
            what, kept, n_in, sorted(targets)), one)
        return None
    # (4) density ordering
    if kept_bins and drop_bins:
        dmin = min(D[bx][by] for bx, by in kept_bins)
        dmax, wb = max((D[bx][by], (bx, by)) for bx, by in drop_bins)
        if dmin < dmax - 1e-9 * mx:
            res.violation(sig + ':density-order', '%s keeps a bin of smoothed density %r but drops bin %r of density %r' % (what, dmin, wb, dmax), one)
            return None
    # gated data == data[mask]; short form == full form
    d1 = diff(fp(out.gated_data), fp(data[mask]))
    if d1:
        res.violation(sig + ':gated', '%s: gated data differs from data[mask]: %s' % (what, d1), one)
        return None
    d2 = diff(fp(short), fp(out.gated_data))
    if d2:
        res.violation(sig + ':short', '%s: short form differs from full form: %s' % (what, d2), one)
        return None
    # (7) re-gating with the returned edges and bin mask reproduces the mask
    if check_regate:
        try:
            again = gate(data, channels, [np.array(xe), np.array(ye)], f, sigma, True, bin_mask=bm.copy())
            if not np.array_equal(np.asarray(again.mask), mask):
                res.violation(sig + ':regate', '%s: re-gating with the returned bin edges and bin mask gives another mask' % what, one)
                return None
        except Exception as e:
            res.violation(sig + ':regate-raises', '%s: re-gating with the returned bin edges and bin mask raised %s: %s' % (what, type(e).__name__, e), one)
            return None
    res.ok(sig, 0 < kept < n)
    return mask


def nested_check(res, sig, what, masks, n_ingrid_mask, one):
    """masks: list of (f, mask) in increasing f"""
    prev = None
    for f, m in masks:
        if m is None:
            return
        if prev is not None and np.any(prev[1] & ~m):
            res.violation(sig + ':not-nested', '%s: events kept at f=%r are dropped at the larger f=%r' % (what, prev[0], f), one)
            return
        prev = (f, m)
    if masks and masks[0][0] == 0.0 and masks[0][1].any():
        res.violation(sig + ':f0', '%s: f=0 keeps events' % what, one)
    if masks and masks[-1][0] == 1.0 and not np.array_equal(masks[-1][1], n_ingrid_mask):
        res.violation(sig + ':f1', '%s: f=1 does not keep exactly the in-grid events' % what, one)


SIGMAS = [0.5, 1.0, 3.0, [0.5, 2.0], [2.0, 0.0], 0.0]


def run_patterns(c, res):
    nx, ny, maxc = c['nx'], c['ny'], c['maxc']
    xe = [float(i) for i in range(nx + 1)]
    ye = [float(2 * i) for i in range(ny + 1)]
    single = c.get('single')
    for idx in ([single[0]] if single else range(c['start'], c['stop'])):
        k, cells = idx, []
        for _ in range(nx * ny):
            cells.append(k % (maxc + 1))
            k //= (maxc + 1)
        counts = [cells[i * ny:(i + 1) * ny] for i in range(nx)]
        ev = events_from_counts(counts, xe, ye)
        n = len(ev)
        if n < 2:
            continue
        arr = np.array([[e[0], -1.0, e[1]] for e in ev])
        for sigma in ([single[1]] if single else SIGMAS):
            masks = []
            for f in ([single[2]] if single else fractions_for(n)):
                one = dict(c, single=[idx, sigma, f])
                what = 'density2d(occupancy %r on a %dx%d grid, gate_fraction=%r, sigma=%r)' % (counts, nx, ny, f, sigma)
                m = judge(res, 'patterns', what, arr, [0, 2], [0, 2], lambda: [np.array(xe), np.array(ye)], f, sigma, one,
                          expect_edges=(xe, ye))
                masks.append((f, m))
            if not single:
                nested_check(res, 'patterns', 'density2d(occupancy %r, sigma=%r)' % (counts, sigma), masks, np.ones(n, dtype=bool),
                             dict(c, single=None))
    res.sample({'grid': [nx, ny], 'occupancy_index_range': [c['start'], c['stop']], 'max_count': maxc, 'sigmas': SIGMAS})


def run_placements(c, res):
    """deviation-bounded: move up to k events of base patterns onto special positions"""
    xe, ye = [0.0, 1.0, 2.0, 3.0], [0.0, 2.0, 4.0]
    bases = [[[2, 1], [1, 3], [0, 2]], [[1, 1], [1, 1], [1, 1]], [[3, 0], [0, 0], [0, 3]]]
    specials = [(0.0, 1.0), (1.0, 1.0), (3.0, 1.0), (1.5, 4.0), (3.0, 4.0), (-0.001, 1.0), (3.001, 1.0), (1.5, -0.5), (1.5, 4.5),
                (2.0, 2.0), (0.0, 0.0), (float('inf'), 1.0), (-5.0, 9.0),
                # a hair outside / inside the outermost edges (outside is outside, however close)
                (3.0000001, 1.0), (float(np.nextafter(3.0, 4.0)), 3.0), (1.5, 4.00000001), (-1e-12, 1.0), (2.9999999, float(np.nextafter(4.0, 0.0))),
                # events without a position (e.g. the logarithm of a negative value) lie in no bin
                (float('nan'), 1.0), (1.5, float('nan')), (float('nan'), float('nan')), (float('-inf'), 3.0)]
    for counts in bases:
        ev0 = events_from_counts(counts, xe, ye)
        n = len(ev0)
        for r in range(0, c['k'] + 1):
            for pos in itertools.combinations(range(min(n, 4)), r):
                for sp in itertools.product(range(len(specials)), repeat=r):
                    if r == 2 and sp[0] > sp[1]:
                        continue
                    if r == 3 and not (sp[0] <= sp[1] <= sp[2]):
                        continue
                    ev = [list(e) for e in ev0]
                    for p, s in zip(pos, sp):
                        ev[p] = list(specials[s])
                    arr = np.array(ev)
                    ing = np.array([assign(x, xe) is not None and assign(y, ye) is not None for x, y in ev])
                    for sigma in (0.5, 1.0):
                        masks = []
                        for f in (0.0, 0.3, 0.5, 0.75, 1.0):
                            one = dict(kind='placement-one', events=[[repr(a), repr(b)] for a, b in ev], f=f, sigma=sigma)
                            what = 'density2d(events %r, edges %r x %r, gate_fraction=%r, sigma=%r)' % (ev, xe, ye, f, sigma)
                            m = judge(res, 'placements', what, arr, [0, 1], [0, 1], lambda: [np.array(xe), np.array(ye)], f, sigma, one, expect_edges=(xe, ye))
                            masks.append((f, m))
                        nested_check(res, 'placements', 'density2d(events %r, sigma=%r)' % (ev, sigma), masks, ing, dict(c))
    res.sample({'base_occupancies': bases, 'special_positions': [repr(s) for s in specials], 'max_moved_events': c['k']})


def run_sparse(c, res):
    """samples of two and more events of which none, or exactly one, lies inside the binning grid (a legal sample: the gate then keeps
    nothing, or that one event's bin)"""
    xe, ye = [0.0, 1.0, 2.0, 3.0], [0.0, 2.0, 4.0]
    outside = [(-1.0, 1.0), (5.0, 1.0), (1.5, -3.0), (1.5, 9.0), (float('nan'), 1.0), (-2.0, -2.0), (float('inf'), 3.0)]
    inside = [(0.5, 1.0), (2.5, 3.0), (0.0, 0.0), (3.0, 4.0), (1.0, 2.0)]
    n = 0
    for n_out in (2, 3, 5):
        for start in range(len(outside)):
            outs = [outside[(start + i) % len(outside)] for i in range(n_out)]
            for ins in [()] + [(p,) for p in inside]:
                for where in ((0,) if not ins else (0, 1, n_out)):
                    ev = [list(e) for e in outs]
                    for p in ins:
                        ev.insert(where, list(p))
                    arr = np.array(ev)
                    ing = np.array([assign(x, xe) is not None and assign(y, ye) is not None for x, y in ev])
                    for sigma in (0.0, 1.0, [0.5, 2.0]):
                        for bins_kind in ('edges', 'mixed'):
                            masks = []
                            for f in (0.0, 0.3, 1.0):
                                one = dict(kind='sparse-one', events=[[repr(a), repr(b)] for a, b in ev], f=f, sigma=sigma, bins=bins_kind)
                                what = 'density2d(events %r, %s, gate_fraction=%r, sigma=%r)' % (ev, 'edges %r x %r' % (xe, ye) if bins_kind == 'edges' else 'bins=[x edges %r, 4]' % (xe,), f, sigma)
                                if c.get('only') and c['only'] != one:
                                    continue
                                if bins_kind == 'edges':
                                    m = judge(res, 'sparse', what, arr, [0, 1], [0, 1], lambda: [np.array(xe), np.array(ye)], f, sigma, one, expect_edges=(xe, ye))
                                else:
                                    fin = arr[np.isfinite(arr).all(axis=1)]
                                    m = judge(res, 'sparse', what, arr, [0, 1], [0, 1], lambda: [np.array(xe), 4], f, sigma, one)
                                masks.append((f, m))
                                n += 1
                            if bins_kind == 'edges' and not c.get('only'):
                                nested_check(res, 'sparse', 'density2d(events %r, sigma=%r)' % (ev, sigma), masks, ing, dict(c))
    res.sample({'events outside the grid': [repr(o) for o in outside], 'events inside': [repr(i) for i in inside], 'calls': n})


def run_float32(c, res):
    """single-precision events lying on, and one unit in the last place next to, bin edges that single precision cannot represent: an
    event belongs to the bin the (double precision) edges put it in -- for counting and for keeping alike"""
    xe = [0.0, 0.7, 1.4, 2.1]
    ye = [0.0, 0.3, 0.9]
    f32 = np.float32

    def around(e):
        v = f32(e)
        return [float(v), float(np.nextafter(v, f32(np.inf))), float(np.nextafter(v, f32(-np.inf)))]
    X = sorted(set(v for e in xe for v in around(e)))
    Y = sorted(set(v for e in ye for v in around(e)))
    # the sub-case rotates which of the near-edge events appear (so that ties between bins break differently)
    ev = [[x, y] for i, x in enumerate(X) for j, y in enumerate(Y) if (i + 2 * j + c['sub']) % 4 != 0]
    ev += [[0.35, 0.1]] * (2 + c['sub']) + [[1.0, 0.5]] * 3 + [[1.8, 0.6]] * (1 + c['sub'] % 2)
    for dt in (np.float32, np.float64):
        arr = np.array([[e[0], -1.0, e[1]] for e in ev], dtype=dt)
        for sigma in (0.0, 1.0):
            masks = []
            for f in (0.0, 0.2, 0.5, 0.8, 1.0):
                one = dict(c)
                what = 'density2d(%d %s events on and next to the edges %r x %r, gate_fraction=%r, sigma=%r)' % (len(ev), np.dtype(dt).name, xe, ye, f, sigma)
                m = judge(res, 'float32', what, arr, [0, 2], [0, 2], lambda: [np.array(xe), np.array(ye)], f, sigma, one, expect_edges=(xe, ye))
                masks.append((f, m))
            ing = np.array([assign(float(x), xe) is not None and assign(float(y), ye) is not None for x, y in zip(arr[:, 0].tolist(), arr[:, 2].tolist())])
            nested_check(res, 'float32', 'density2d(%s events next to edges, sigma=%r)' % (np.dtype(dt).name, sigma), masks, ing, dict(c))
    res.sample({'edges': [xe, ye], 'events': len(ev), 'dtypes': ['float32', 'float64']})


def run_binspecs(c, res):
    """count, explicit edges, per-axis mixtures, on plain arrays"""
    ev = [[0.5, 0.5], [0.5, 0.6], [1.5, 2.5], [1.5, 2.6], [1.6, 2.4], [2.5, 0.5], [2.9, 3.9], [0.1, 3.9], [1.5, 2.5]]
    arr = np.array(ev)
    xe, ye = np.array([0.0, 1.0, 2.0, 3.0]), np.array([0.0, 2.0, 4.0])
    specs = [('count', lambda: 3), ('counts', lambda: [3, 2]), ('edges', lambda: [xe.copy(), ye.copy()]),
             ('edges-lists', lambda: [xe.tolist(), ye.tolist()]), ('mixed-count-edges', lambda: [3, ye.copy()]),
             ('mixed-edges-count', lambda: [xe.copy(), 2]), ('same-edges', lambda: np.array([0.0, 1.0, 2.0, 3.0, 4.0])),
             ('tuple', lambda: (3, 2)), ('count-1', lambda: 1), ('count-5', lambda: 5)]
    for name, mk in specs:
        for sigma in SIGMAS:
            masks = []
            for f in fractions_for(len(ev)):
                one = dict(c)
                what = 'density2d(9 events, bins=%s, gate_fraction=%r, sigma=%r)' % (name, f, sigma)
                m = judge(res, 'binspecs:' + name, what, arr, [0, 1], [0, 1], mk, f, sigma, one)
                masks.append((f, m))
            nested_check(res, 'binspecs:' + name, 'density2d(bins=%s, sigma=%r)' % (name, sigma), masks,
                         np.ones(len(ev), dtype=bool) if name != 'same-edges' else None, one) if name != 'same-edges' else None
    res.sample({'bin_specifications': [s[0] for s in specs]})


def make_sample():
    import FlowCal
    ev = []
    for i in range(40):
        ev.append([(i * 7) % 32, (i * 5 + 3) % 32, (i * 11) % 32])
    ev += [[0, 0, 0], [31, 31, 31], [16, 16, 1], [16, 17, 1], [16, 16, 1], [17, 16, 2]]
    lay = dict(datatype='I', bits=[8] * 3, ranges=[32, 32, 32], pne=['0,0', '0,0', '0,0'], events=ev, byteord='1,2,3,4')
    buf, _ = fcsgen.build(lay)
    p = os.path.join(scratch(), 'c05.fcs')
    with open(p, 'wb') as f:
        f.write(buf)
    return FlowCal.io.FCSData(p)


def run_sample(c, res):
    """bins derived from the sample: None-like counts resolved through hist_bins in every scale"""
    d = make_sample()
    xs, ys = c['xscale'], c['yscale']
    for chans, cols in ((['CH1', 'CH2'], [0, 1]), ([2, 0], [2, 0]), (['CH2', 2], [1, 2])):
        for bname, mk in (('count', lambda: 8), ('counts', lambda: [8, 5]), ('count+edges', lambda: [6, np.linspace(-0.5, 31.5, 9)]),
                          ('default-resolution', lambda: 32),
                          # the same counts as NumPy integers / an integer array (e.g. taken from a table or computed)
                          ('np-count', lambda: np.int64(8)), ('np-counts', lambda: [np.int32(8), np.uint16(5)]), ('array-counts', lambda: np.array([8, 5])),
                          ('tuple-counts', lambda: (8, 5))):
            exp_edges = None
            if bname != 'count+edges':
                nb = {'count': (8, 8), 'counts': (8, 5), 'default-resolution': (32, 32), 'np-count': (8, 8), 'np-counts': (8, 5), 'array-counts': (8, 5),
                      'tuple-counts': (8, 5)}[bname]
                sub = d[:, chans]
                exp_edges = (np.asarray(sub.hist_bins(0, nb[0], xs), dtype=float).tolist(), np.asarray(sub.hist_bins(1, nb[1], ys), dtype=float).tolist())
            for sigma in (0.5, 2.0):
                masks = []
                for f in (0.0, 0.1, 0.25, 0.5, 0.9, 1.0):
                    one = dict(c)
                    what = 'density2d(sample, channels=%r, bins=%s, xscale=%r, yscale=%r, gate_fraction=%r, sigma=%r)' % (chans, bname, xs, ys, f, sigma)
                    m = judge(res, 'sample:' + bname, what, d, chans, cols, mk, f, sigma, one, expect_edges=exp_edges,
                              extra_kw=dict(xscale=xs, yscale=ys))
                    masks.append((f, m))
                nested_check(res, 'sample:' + bname, 'density2d(sample, bins=%s, %s/%s, sigma=%r)' % (bname, xs, ys, sigma), masks, None, dict(c)) \
                    if False else None
                prev = None
                for f, m in masks:
                    if m is not None and prev is not None and np.any(prev & ~m):
                        res.violation('sample:not-nested', 'density2d(sample, bins=%s, %s/%s): kept set not monotone in f' % (bname, xs, ys), dict(c))
                    prev = m if m is not None else prev
    res.sample({'sample': '46 events, 3 channels, resolution 32', 'xscale': xs, 'yscale': ys})


def run_sample_sequence(c, res):
    """samples with the same acquisition settings but different events, gated one after the other with sample-derived bins: each
    is gated on its own grid (logicle edges depend on the sample's most negative event)"""
    import FlowCal
    rs = np.random.RandomState(5)
    base = np.abs(rs.normal(300.0, 120.0, size=(300, 2))) + 5.0
    variants = {'strongly-negative': np.vstack([base, [[-900.0, 40.0], [-350.0, -600.0], [20.0, -80.0]]]),
                'mildly-negative': np.vstack([base, [[-3.0, 40.0], [30.0, -1.5]]]), 'positive': base.copy()}
    samples = {}
    for name, arr in variants.items():
        lay = dict(datatype='D', bits=[64, 64], ranges=[4096, 4096], events=[[fcsgen.float_bits(float(x), 'D') for x in r] for r in arr.tolist()], byteord='1,2,3,4')
        buf, _ = fcsgen.build(lay)
        p = os.path.join(scratch(), 'c05seq_%s.fcs' % name)
        with open(p, 'wb') as f:
            f.write(buf)
        samples[name] = FlowCal.io.FCSData(p)
    for order in itertools.permutations(sorted(samples)):
        for name in list(order) + [order[0]]:
            d = samples[name]
            for bname, mk, nb in (('count', lambda: 16, (16, 16)), ('counts', lambda: [16, 9], (16, 9))):
                exp_edges = (np.asarray(d.hist_bins(0, nb[0], c['xscale']), dtype=float).tolist(), np.asarray(d.hist_bins(1, nb[1], c['yscale']), dtype=float).tolist())
                for f in (0.3, 0.8, 1.0):
                    what = 'density2d(%s sample (gated after %s), bins=%s, xscale=%r, yscale=%r, gate_fraction=%r)' % (name, list(order), bname, c['xscale'], c['yscale'], f)
                    judge(res, 'sequence:' + bname, what, d, [0, 1], [0, 1], mk, f, 1.0, dict(c), expect_edges=exp_edges, extra_kw=dict(xscale=c['xscale'], yscale=c['yscale']))
    res.sample({'samples': sorted(samples), 'orders': 'all 6', 'xscale': c['xscale'], 'yscale': c['yscale']})


def run_permutations(c, res):
    xe, ye = np.array([0.0, 1.0, 2.0]), np.array([0.0, 1.0, 2.0, 3.0])
    small = [[0.5, 0.5], [0.5, 0.5], [1.5, 2.5], [1.5, 1.5], [0.5, 2.5]]
    big = events_from_counts([[2, 1, 0], [1, 3, 2]], xe.tolist(), ye.tolist())
    for ev, perms in ((small, list(itertools.permutations(range(5)))),
                      (big, [list(range(9))[::-1]] + [list(range(9))[k:] + list(range(9))[:k] for k in range(1, 9)])):
        base = np.array(ev)
        for sigma in (0.5, 1.0):
            for f in fractions_for(len(ev)):
                ref = gate(base, [0, 1], [xe.copy(), ye.copy()], f, sigma, True).mask
                refset = sorted(map(tuple, base[ref].tolist()))
                for p in perms:
                    arr = base[list(p)]
                    m = gate(arr, [0, 1], [xe.copy(), ye.copy()], f, sigma, True).mask
                    got = sorted(map(tuple, arr[m].tolist()))
                    if got != refset:
                        res.violation('permutation', 'density2d keeps %r for event order %r but %r for the original order (f=%r, sigma=%r)' % (
                            got, list(p), refset, f, sigma), dict(c))
                        break
                else:
                    res.ok('permutation-invariant', True, k=len(perms))
    res.sample({'permutations': 'all 120 orders of 5 events; reversal and rotations of 9 events'})


def run_refusals(c, res):
    arr = np.array([[0.5, 0.5, 1.0], [1.5, 1.5, 2.0], [0.5, 1.5, 3.0]])
    bins = lambda: [np.array([0.0, 1.0, 2.0]), np.array([0.0, 1.0, 2.0])]
    bad = [('f=-0.1', lambda: gate(arr, [0, 1], bins(), -0.1, 1.0)), ('f=1.5', lambda: gate(arr, [0, 1], bins(), 1.5, 1.0)),
           ('f=-1e-9', lambda: gate(arr, [0, 1], bins(), -1e-9, 1.0)), ('f=1+1e-9', lambda: gate(arr, [0, 1], bins(), 1 + 1e-9, 1.0)),
           ('one channel', lambda: gate(arr, [0], bins(), 0.5, 1.0)), ('three channels', lambda: gate(arr, [0, 1, 2], bins(), 0.5, 1.0)),
           ('one event', lambda: gate(arr[:1], [0, 1], bins(), 0.5, 1.0)), ('no events', lambda: gate(arr[:0], [0, 1], bins(), 0.5, 1.0)),
           # not a fraction at all
           ('f=nan', lambda: gate(arr, [0, 1], bins(), float('nan'), 1.0)), ('f=np.float32 nan', lambda: gate(arr, [0, 1], bins(), np.float32('nan'), 1.0)),
           ('f=nan, short form', lambda: gate(arr, [0, 1], bins(), float('nan'), 1.0, False)), ('f=inf', lambda: gate(arr, [0, 1], bins(), float('inf'), 1.0)),
           ('f=-inf', lambda: gate(arr, [0, 1], bins(), float('-inf'), 1.0))]
    for name, fn in bad:
        try:
            fn()
        except Exception:
            res.ok('refused', True)
            continue
        res.violation('not-refused:' + name, 'density2d with %s did not raise' % name, dict(c))
    res.sample({'refusals': [b[0] for b in bad]})


def run_continuous(c, res):
    """continuous, clustered events from a deterministic stream (part of the enumerated stream set, thorough only)"""
    rng = np.random.RandomState(1000 + c['stream'])
    pts = np.vstack([rng.normal([2.0, 3.0], 0.4, size=(60, 2)), rng.uniform(0, 6, size=(40, 2))])
    for bins in (lambda: 6, lambda: [np.linspace(0, 6, 7), np.linspace(0, 6, 5)], lambda: [4, np.linspace(-1, 5, 8)]):
        for sigma in (0.7, 2.0):
            masks = []
            for f in (0.0, 0.05, 0.33, 0.5, 0.85, 1.0):
                m = judge(res, 'continuous', 'density2d(stream %d, f=%r, sigma=%r)' % (c['stream'], f, sigma), pts, [0, 1], [0, 1], bins, f, sigma, dict(c))
                masks.append((f, m))
            prev = None
            for f, m in masks:
                if m is not None and prev is not None and np.any(prev & ~m):
                    res.violation('continuous:not-nested', 'kept set not monotone in f (stream %d)' % c['stream'], dict(c))
                prev = m if m is not None else prev
    res.sample({'stream': c['stream'], 'events': 100})


def run_case(c):
    res = Result()
    with warnings.catch_warnings():
        warnings.simplefilter('ignore')
        k = c['kind']
        if k == 'patterns':
            run_patterns(c, res)
        elif k == 'placements':
            run_placements(c, res)
        elif k == 'placement-one':
            ev = [[float(a), float(b)] for a, b in c['events']]
            xe, ye = [0.0, 1.0, 2.0, 3.0], [0.0, 2.0, 4.0]
            judge(res, 'placements', 'density2d(events %r, gate_fraction=%r, sigma=%r)' % (ev, c['f'], c['sigma']), np.array(ev), [0, 1], [0, 1],
                  lambda: [np.array(xe), np.array(ye)], c['f'], c['sigma'], c, expect_edges=(xe, ye))
        elif k == 'float32':
            run_float32(c, res)
        elif k == 'sparse':
            run_sparse(c, res)
        elif k == 'sparse-one':
            run_sparse(dict(kind='sparse', only=dict(c)), res)
        elif k == 'binspecs':
            run_binspecs(c, res)
        elif k == 'sample':
            run_sample(c, res)
        elif k == 'sample-sequence':
            run_sample_sequence(c, res)
        elif k == 'permutations':
            run_permutations(c, res)
        elif k == 'refusals':
            run_refusals(c, res)
        else:
            run_continuous(c, res)
    return res
