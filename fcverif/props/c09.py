"""C09 -- fitting the bead model recovers the law that generated the beads (E1, lattice)."""
import itertools
import math
import warnings

import numpy as np

from ..runner import Result

ID = 'C09'
LEVEL = 'exploration'
TECHNIQUE = ('exhaustive enumeration of a (slope, intercept, autofluorescence, bead ladder) lattice with RFI generated exactly from '
             'the bead model: recovery within 5% on a 50-point log grid over the bead span; structural identities (odd, zero at '
             'zero, increasing, non-negative autofluorescence, model = curve - autofluorescence) on every lattice fit and on all '
             'increasing positive triples/quadruples over a decade grid; refusals')
RULE = ('one evaluation = one fit with all its clauses; every lattice point / tuple exactly once (the seed shifts the phase of the '
        'slope and intercept lattices); non-trivial = autofluorescence > 0 or a ladder shorter than the shipped one; distinct by construction')
ASSUMPTIONS = ['lattice over real parameters; ladders: the shipped 8-peak ladder, its brightest 5..8-peak sub-ladders, a 10-peak synthetic ladder',
               'recovery is demanded only where at least five populations are brighter than 3x the autofluorescence (the property\'s quantifier)']
CHUNK = 8

SHIPPED = [0, 646, 1704, 4827, 15991, 47609, 135896, 273006]      # examples: MEFL values of the beads
SYN10 = [0, 120, 400, 1300, 4200, 14000, 45000, 150000, 480000, 1500000]


def ladders():
    out = [('shipped8', SHIPPED), ('shipped8-noblank', SHIPPED[1:])]
    for k in (5, 6):
        out.append(('shipped-top%d' % k, SHIPPED[-k:]))
    # the ladders of the shipped example experiment (examples/experiment.xlsx, examples/analyze_mef.py)
    out.append(('example-a', [0, 792, 2079, 6588, 16471, 47497, 137049, 271647]))
    out.append(('example-b', [0, 771, 2106, 6262, 15183, 45292, 136258, 291042]))
    out.append(('example-b-noblank', [771, 2106, 6262, 15183, 45292, 136258, 291042]))
    out.append(('syn10', SYN10))
    out.append(('syn10-noblank', SYN10[1:]))
    out.append(('syn-top6', SYN10[-6:]))
    return out


def cases(tier, seed):
    ph = (seed * 0.37) % 1.0
    if tier == 'quick':
        ms = [0.85 + 0.05 * (i + ph * (1 if seed else 0)) for i in range(9)]
        bs = [1.0 * (j + ph * (1 if seed else 0)) for j in range(8)]
    else:
        ms = [0.85 + 0.025 * (i + ph * (1 if seed else 0)) for i in range(17)]
        bs = [0.5 * (j + ph * (1 if seed else 0)) for j in range(15)]
    ms = [m for m in ms if m <= 1.25 + 1e-9]
    bs = [b for b in bs if b <= 7 + 1e-9]
    for m in ms:
        for b in bs:
            yield dict(kind='lattice', m=round(m, 6), b=round(b, 6))
    # intercepts below the stated interval (one RFI unit worth less than one MEF unit: a dim bead kit at high gain)
    for m in ms[::2]:
        for b in (-2.0, -0.6):
            yield dict(kind='lattice', m=round(m, 6), b=b)
    # the same lattice shifted off every round number (slopes and intercepts with four and more decimals)
    for m in ms[:-1]:
        for b in bs[:-1]:
            yield dict(kind='lattice', m=round(m + 0.0137, 6), b=round(b + 0.0449, 6))
    vals = [1, 10, 100, 1000, 10000]
    yield dict(kind='structural', k=3, vals=vals)
    yield dict(kind='structural', k=4, vals=vals)
    if tier == 'thorough':
        yield dict(kind='structural', k=5, vals=vals + [100000])
    yield dict(kind='refusals')


def bounds(tier, seed):
    return {'slope': '[0.85, 1.25] step %s' % (0.05 if tier == 'quick' else 0.025), 'intercept': '[0, 7] step %s' % (1 if tier == 'quick' else 0.5),
            'autofluorescence': [0, 1, 10, 100, 1000, 5000], 'ladders': [l[0] for l in ladders()]}


AUTOS = [0, 1, 10, 100, 1000, 5000]


def structural(res, what, sig, fit, rfi, one, check_model=True):
    std_crv, beads_model, params = fit[0], fit[1], fit[2]
    xs = np.array([1e-3, 0.5, 1.0, 7.0, 123.4, 1e4, 3e6])
    # the fitted parameters as reported when the fit returns; evaluating the returned functions (in any order) must change neither
    # the parameters nor each other's answers
    p_ret = [float(x) for x in params]
    bm_first = np.asarray(beads_model(xs), dtype=float) if check_model else None
    pos = np.asarray(std_crv(xs), dtype=float)
    if [float(x) for x in fit[2]] != p_ret:
        res.violation(sig + ':parameters-changed', '%s: evaluating the standard curve changed the reported parameters from %r to %r' % (what, p_ret, [float(x) for x in fit[2]]), one)
        return False
    if check_model:
        bm_again = np.asarray(beads_model(xs), dtype=float)
        if bm_again.tobytes() != bm_first.tobytes():
            res.violation(sig + ':model-history', '%s: beads_model(x) gives %s before and %s after the standard curve has been evaluated' % (what, bm_first.tolist()[:3], bm_again.tolist()[:3]), one)
            return False
    params = p_ret
    # single numbers (Python and NumPy scalars), negative ones included, give what the array call gives
    for v in (-0.01, -7.5, 3.25, -123.4):
        arr_v = float(np.asarray(std_crv(np.array([v])), dtype=float)[0])
        for conv in (float, np.float64, np.float32):
            try:
                sv = float(std_crv(conv(v)))
            except Exception as e:
                res.violation(sig + ':scalar-raises', '%s: std_crv(%r) raised %s: %s' % (what, conv(v), type(e).__name__, e), one)
                return False
            ref_v = float(np.asarray(std_crv(np.array([conv(v)], dtype=float)), dtype=float)[0])
            if not (sv == ref_v or abs(sv - ref_v) <= 1e-12 * abs(ref_v)):
                res.violation(sig + ':scalar', '%s: std_crv(%s(%r)) = %r, the same value in an array gives %r' % (what, conv.__name__, v, sv, ref_v), one)
                return False
    # the curve evaluated on whole-number fluorescence values held in integer types (raw channel numbers) equals the curve on the same values as floats
    xi = [1, 2, 7, 123, 10000, 60000]
    want_i = np.asarray(std_crv(np.array(xi, dtype=float)), dtype=float)
    for typ in (np.int64, np.int32, np.uint16, 'list', 'scalar'):
        try:
            if typ == 'list':
                got_i = np.asarray(std_crv(list(xi)), dtype=float)
            elif typ == 'scalar':
                got_i = np.array([float(std_crv(v)) for v in xi])
            else:
                got_i = np.asarray(std_crv(np.array(xi, dtype=typ)), dtype=float)
        except Exception as e:
            res.violation(sig + ':integer-input-raises', '%s: std_crv on %s integers raised %s: %s' % (what, getattr(typ, '__name__', typ), type(e).__name__, e), one)
            return False
        if not np.allclose(got_i, want_i, rtol=1e-12, atol=0):
            res.violation(sig + ':integer-input', '%s: std_crv(%r as %s) = %s, as floats %s' % (what, xi, getattr(typ, '__name__', typ), got_i.tolist()[:3], want_i.tolist()[:3]), one)
            return False
    # a caller's buffer evaluated, changed in place, evaluated again (the answer describes the values the buffer holds NOW), and a returned
    # array changed in place by the caller (later answers are unaffected)
    for fn_name, fn in (('std_crv', std_crv),) + ((('beads_model', beads_model),) if check_model else ()):
        buf = xs.copy()
        y1 = np.array(fn(buf), dtype=float)
        buf *= 2.0
        y2 = np.array(fn(buf), dtype=float)
        y2_fresh = np.array(fn(xs * 2.0), dtype=float)
        buf[:] = xs
        r3 = fn(buf)
        y3 = np.array(r3, dtype=float)
        try:
            r3 *= 3.0
        except Exception:
            pass
        y4 = np.array(fn(buf), dtype=float)
        if y2.tobytes() != y2_fresh.tobytes() or y3.tobytes() != y1.tobytes() or y4.tobytes() != y1.tobytes():
            res.violation(sig + ':buffer-history', '%s: %s on a buffer that was changed in place between calls (or whose earlier result the caller changed) does not give the values of a fresh array: %s / %s / %s vs %s' % (
                what, fn_name, y2.tolist()[:2], y3.tolist()[:2], y4.tolist()[:2], y1.tolist()[:2]), one)
            return False
    # an array whose first element is exactly zero (a table built as [0, ...span of the beads...], np.linspace(0, xmax, n)): every element
    # still gets the value it gets on its own
    for z0 in (0.0, -0.0, 0):
        grid0 = np.array([z0, 0.5, 2.5, 7.0, 123.4, 1e4], dtype=float)
        for fn_name, fn in (('std_crv', std_crv),) + ((('beads_model', beads_model),) if check_model else ()):
            if fn_name == 'beads_model':
                grid_use = grid0[1:]
                grid_use = np.concatenate([[1e-300], grid_use])
            else:
                grid_use = grid0
            try:
                whole = np.asarray(fn(grid_use))
                each = np.array([float(np.asarray(fn(np.array([v_])))[0]) for v_ in grid_use.tolist()])
            except Exception as e:
                res.violation(sig + ':zero-first-raises', '%s: %s on an array starting with %r raised %s: %s' % (what, fn_name, z0, type(e).__name__, e), one)
                return False
            if whole.dtype.kind != 'f' or not np.array_equal(np.asarray(whole, dtype=float), each):
                res.violation(sig + ':zero-first', '%s: %s(%s) = %s (dtype %s), element by element it gives %s' % (what, fn_name, grid_use.tolist(), whole.tolist(), whole.dtype, each.tolist()), one)
                return False
    neg = np.asarray(std_crv(-xs), dtype=float)
    if not np.all(np.isfinite(pos)) or not np.array_equal(neg, -pos):
        res.violation(sig + ':not-odd', '%s: std_crv(-x) != -std_crv(x): %s vs %s' % (what, neg.tolist()[:3], pos.tolist()[:3]), one)
        return False
    z = std_crv(np.array([0.0]))
    if float(np.asarray(z)[0]) != 0.0 or float(std_crv(0.0)) != 0.0:
        res.violation(sig + ':zero', '%s: std_crv(0) = %r' % (what, z), one)
        return False
    m = float(params[0])
    if m > 0 and np.any(np.diff(pos) <= 0):
        res.violation(sig + ':not-increasing', '%s: slope %r > 0 but std_crv is not increasing: %s' % (what, m, pos.tolist()), one)
        return False
    if float(params[2]) < 0:
        res.violation(sig + ':negative-autofluorescence', '%s: fitted autofluorescence %r < 0' % (what, float(params[2])), one)
        return False
    if check_model:
        bm = np.asarray(beads_model(xs), dtype=float)
        want = pos - float(params[2])
        if np.any(np.abs(bm - want) > 1e-9 * np.maximum(np.abs(pos), float(params[2]) + 1e-300)):
            res.violation(sig + ':model', '%s: beads_model(x) != std_crv(x) - autofluorescence: %s vs %s' % (what, bm.tolist()[:3], want.tolist()[:3]), one)
            return False
    return True


_PREV = []


def run_case(c):
    import FlowCal
    fitf = FlowCal.mef.fit_beads_autofluorescence
    res = Result()
    _PREV[:] = []
    with warnings.catch_warnings():
        warnings.simplefilter('ignore')
        if c['kind'] == 'lattice':
            m, b = c['m'], c['b']
            for lname, mef in ladders():
                # the largest autofluorescence the ladder admits (five populations still above three times it), where it matters most
                edge = min(5000, int(mef[-5] / 3.0 * 0.999))
                for auto in AUTOS + ([edge] if edge not in AUTOS else []):
                    if auto == 0 and mef[0] == 0:
                        continue            # a blank bead (MEF 0) has RFI 0 without autofluorescence; the law does not define log(0)
                    bright = [v for v in mef if v > 3 * auto]
                    mefs = np.array(mef, dtype=float)
                    rfi = np.exp((np.log(mefs + auto) - b) / m)
                    one = dict(kind='lattice-one', m=m, b=b, auto=auto, ladder=lname)
                    if c.get('only') and c['only'] != [auto, lname]:
                        continue
                    what = 'fit(slope %r, intercept %r, autofluorescence %r, ladder %s)' % (m, b, auto, lname)
                    # manufacturer ladders are whole numbers: given as floats, as an integer array or as a list of ints (same fit)
                    form = ('float', 'int-array', 'int-list')[((AUTOS.index(auto) if auto in AUTOS else 1) + len(lname)) % 3]
                    mef_arg = mefs if form == 'float' else (np.array(mef, dtype=np.int64) if form == 'int-array' else [int(v) for v in mef])
                    what += ' [MEF values as %s]' % form
                    rfi_before, mef_before = rfi.tobytes(), repr(mef_arg)
                    try:
                        fit = fitf(rfi, mef_arg)
                    except Exception as e:
                        res.violation('lattice:raises:%s' % type(e).__name__, '%s raised %s: %s' % (what, type(e).__name__, e), one)
                        continue
                    if rfi.tobytes() != rfi_before or repr(mef_arg) != mef_before:
                        res.violation('lattice:inputs-changed', '%s changed the arrays it was given (fluorescence values now %s...)' % (what, rfi.tolist()[:3]), one)
                        continue
                    if not structural(res, what, 'lattice', fit, rfi, one):
                        continue
                    # an earlier fit (of this lattice point) still gives the answers it gave before this fit was made
                    xs_h = np.array([0.5, 7.0, 123.4, 1e4])
                    if _PREV:
                        pf, pvals, ppar, pwhat = _PREV[0]
                        now_v = np.asarray(pf[0](xs_h), dtype=float).tolist() + np.asarray(pf[1](xs_h), dtype=float).tolist()
                        if now_v != pvals or [float(x) for x in pf[2]] != ppar:
                            res.violation('lattice:earlier-fit-changed', 'after %s, the standard curve / bead model / parameters of the earlier %s changed' % (what, pwhat), dict(kind='lattice', m=m, b=b))
                            _PREV[:] = []
                            continue
                    _PREV[:] = [(fit, np.asarray(fit[0](xs_h), dtype=float).tolist() + np.asarray(fit[1](xs_h), dtype=float).tolist(), [float(x) for x in fit[2]], what)]
                    if len(bright) >= 5:
                        lo = rfi.min()            # the span of the beads includes the blank population (it fluoresces as much as the autofluorescence)
                        grid = np.exp(np.linspace(np.log(float(lo)), np.log(float(rfi.max())), 50))
                        got = np.asarray(fit[0](grid), dtype=float)
                        true = np.exp(b) * grid ** m
                        dev = np.abs(got / true - 1)
                        res.counters['max_recovery_error_ppm'] = max(res.counters['max_recovery_error_ppm'], int(dev.max() * 1e6))
                        if dev.max() > 0.05:
                            i = int(np.argmax(dev))
                            res.violation('lattice:recovery', '%s: std_crv(%r) = %r, the generating law gives %r (%.1f%% off; fitted parameters %s)' % (
                                what, float(grid[i]), float(got[i]), float(true[i]), 100 * dev[i], np.asarray(fit[2]).tolist()), one)
                            continue
                        res.ok('lattice:recovered', auto > 0 or len(mef) < 8)
                        # the same bead values held in single precision (statistics of a float32 sample): the same law is recovered
                        for dt32 in ((np.float32, np.float32), (np.float32, np.float64)):
                            what32 = 'fit(slope %r, intercept %r, autofluorescence %r, ladder %s) [fluorescence as %s, MEF as %s]' % (m, b, auto, lname, dt32[0].__name__, dt32[1].__name__)
                            try:
                                fit32 = fitf(rfi.astype(dt32[0]), mefs.astype(dt32[1]))
                                got32 = np.asarray(fit32[0](grid), dtype=float)
                            except Exception as e:
                                res.violation('lattice:float32:raises:%s' % type(e).__name__, '%s raised %s: %s' % (what32, type(e).__name__, e), one)
                                break
                            dev32 = np.abs(got32 / true - 1)
                            res.counters['max_recovery_error_float32_ppm'] = max(res.counters['max_recovery_error_float32_ppm'], int(np.nanmax(dev32) * 1e6))
                            if not np.all(dev32 <= 0.05):
                                i = int(np.argmax(np.where(np.isnan(dev32), np.inf, dev32)))
                                res.violation('lattice:recovery:float32', '%s: std_crv(%r) = %r, the generating law gives %r (%.1f%% off; fitted parameters %s)' % (
                                    what32, float(grid[i]), float(got32[i]), float(true[i]), 100 * dev32[i], np.asarray(fit32[2]).tolist()), one)
                                break
                            res.ok('lattice:recovered:float32', True)
                    else:
                        res.ok('lattice:structural-only', True)
            res.sample({'m': m, 'b': b, 'autofluorescence': AUTOS, 'ladders': [l[0] for l in ladders()]})
        elif c['kind'] == 'lattice-one':
            return run_case(dict(kind='lattice', m=c['m'], b=c['b'], only=[c['auto'], c['ladder']]))
        elif c['kind'] == 'structural':
            k = c['k']
            vals = c['vals']
            for rfi in itertools.combinations(vals, k):
                for mef in itertools.combinations(vals, k):
                    one = dict(c)
                    what = 'fit(rfi=%r, mef=%r)' % (rfi, mef)
                    try:
                        fit = fitf(np.array(rfi, dtype=float), np.array(mef, dtype=float))
                    except Exception as e:
                        res.violation('structural:raises:%s' % type(e).__name__, '%s raised %s: %s' % (what, type(e).__name__, e), one)
                        continue
                    if structural(res, what, 'structural', fit, rfi, one):
                        res.ok('structural', True)
            res.sample({'tuples': 'all increasing %d-tuples over %r for RFI x MEF' % (k, vals)})
        else:
            bad = [([1.0, 2.0], [1.0, 2.0]), ([1.0], [1.0]), ([], []), ([1.0, 2.0, 3.0], [1.0, 2.0]), ([1.0, 2.0], [1.0, 2.0, 3.0]),
                   ([1.0, 2.0, 3.0, 4.0], [1.0, 2.0, 3.0]), ([1.0, 2.0, 3.0], [1.0, 2.0, 3.0, 4.0]),
                   ([3.0, 9.0, 27.0, 81.0, 243.0, 729.0], [10.0, 30.0, 90.0, 270.0, 810.0, 2430.0, 7290.0, 21870.0]),
                   ([3.0, 9.0, 27.0, 81.0, 243.0, 729.0, 2000.0, 6000.0], [10.0, 30.0, 90.0, 270.0, 810.0, 2430.0]),
                   ([5.0, 50.0, 500.0], [10.0, 100.0, 1000.0, 10000.0, 100000.0]),
                   # one value against many (broadcastable shapes are still different numbers of beads)
                   ([5.0], [10.0, 100.0, 1000.0, 10000.0]), ([5.0, 50.0, 500.0, 5000.0], [10.0]), ([5.0], [10.0, 100.0, 1000.0]), ([2.0, 20.0, 200.0], [273006.0])]
            for rfi, mef in bad:
                for wrap in (np.array, list):
                    try:
                        fitf(wrap(rfi), wrap(mef))
                    except Exception:
                        res.ok('refused', True)
                        continue
                    res.violation('not-refused', 'fit(rfi=%r, mef=%r) as %s did not raise' % (rfi, mef, wrap.__name__), dict(c))
            res.sample({'refusals': bad})
    return res
