"""C11 -- in a batch, a failing row is reported in place and does not affect other rows (E3)."""
import itertools
import os
import warnings

import numpy as np

from .. import workbookgen as wg
from ..fingerprint import fp, diff
from ..runner import Result, scratch

ID = 'C11'
LEVEL = 'fault_enumeration'
ENGINE = 'E3'
TECHNIQUE = ('fault enumeration over batch tables: every assignment of {healthy, each documented fault kind} to the rows of sample '
             'tables and bead tables up to a row bound (complete for small tables, fault-count bounded above), run through the real '
             'workflow functions; faulty rows must become row errors with an ERROR note and empty statistics, healthy rows must '
             'equal their single-row runs, keys must follow table order')
RULE = ('one evaluation = one table (one fault assignment) processed end to end; every assignment within the bound exactly once; '
        'non-trivial = at least one faulty row next to at least one healthy row, or a table of only faulty rows; distinct by construction')
ASSUMPTIONS = ['references to unknown Beads IDs / Instrument IDs are not documented row faults (ill-formed workbook) and are not in the menu',
               'bead rows are processed once per worker and shared by all sample tables (process_samples_table only reads them)']
CHUNK = 4

SAMPLE_FAULTS = ['ok', 'notfound', 'few', 'fraction-neg', 'fraction-big', 'units', 'mef-beads-failed', 'mef-beads-novalues',
                 'mef-nocurve', 'mef-nocolumn', 'other-instrument', 'amp-differs', 'voltage-differs', 'notfound-below-a-file', 'notfound-name-too-long',
                 'voltage-zero']
BEAD_FAULTS = ['ok', 'notfound', 'few', 'fraction-neg', 'fraction-big', 'unequal-mef', 'unequal-mef-3ch', 'notfound-below-a-file']

# value menus of the two faults that carry a value: near misses of the recognised unit spellings, fractions just outside [0, 1]
BAD_UNITS = ['a.u', 'A', 'u.', ' ', 'a', 'au.', '.', 'rf', 'RFIs', 'me', 'MEFL', 'chan', 'Channels', 'a.u.au', 'a u', 'M E F', 'R', 'none', '0', '1.5']
BAD_FRACTIONS = [-0.0005, -1e-6, -1e-12, 1.0000001, 1.0005, 2.0, 100.0, -1.0, -5e-324]
I3 = dict(wg.instrument(0, nfl=3), id='INST3')       # three fluorescence channels (ragged MEF value counts need >= 3)
I1 = wg.instrument(0)          # FSC-H SSC-H FL1-H FL2-H Time
I2 = wg.instrument(1)          # FSC-A ...
FL1, FL2 = I1['fl']


def root():
    d = os.path.join(scratch(), 'c11')
    return d


_FILES = {}


def ensure_files():
    d = root()
    if _FILES:
        return d
    os.makedirs(d, exist_ok=True)
    lay, truth = wg.bead_layout(I1, stream=1)
    wg.write_fcs(os.path.join(d, 'beads_ok.fcs'), lay)
    _FILES['truth'] = truth
    lay2, truth2 = wg.bead_layout(I2, stream=2)
    wg.write_fcs(os.path.join(d, 'beads_i2.fcs'), lay2)
    _FILES['truth2'] = truth2
    lay3, truth3 = wg.bead_layout(I3, stream=4)
    wg.write_fcs(os.path.join(d, 'beads_3ch.fcs'), lay3)
    _FILES['truth3'] = truth3
    # bead files in which one of the two channels does not resolve the populations (they can only be clustered on the other one)
    for flat in (0, 1):
        layx, truthx = wg.bead_layout(I1, stream=6 + flat, flat_channels=(flat,))
        wg.write_fcs(os.path.join(d, 'beads_flat%d.fcs' % (flat + 1)), layx)
        _FILES['truth_flat%d' % (flat + 1)] = truthx
    layf, _ = wg.bead_layout(I1, stream=3, few=True)
    wg.write_fcs(os.path.join(d, 'beads_few.fcs'), layf)
    for i in range(5):
        # (the second file records its first fluorescence channel with 256 channels only: its histogram has 256 bins, whatever the other rows have)
        wg.write_fcs(os.path.join(d, 'cell_%d.fcs' % i), wg.cell_layout(I1, stream=10 + i, container='int' if i != 3 else 'float', n=800 + 40 * i,
                                                                         res=[256, 1024] if i == 1 else None))
    wg.write_fcs(os.path.join(d, 'cell_few.fcs'), wg.cell_layout(I1, stream=20, n=300))
    wg.write_fcs(os.path.join(d, 'cell_lin.fcs'), wg.cell_layout(I1, stream=21, linear_fl=True))
    wg.write_fcs(os.path.join(d, 'cell_volt.fcs'), wg.cell_layout(I1, stream=22, voltage_shift=7))
    wg.write_fcs(os.path.join(d, 'cell_i2.fcs'), wg.cell_layout(I2, stream=23))
    # acquisition settings that differ from the beads' in the SECOND calibrated channel only
    wg.write_fcs(os.path.join(d, 'cell_volt2.fcs'), wg.cell_layout(I1, stream=26, voltages=[500, 532]))
    wg.write_fcs(os.path.join(d, 'cell_lin2.fcs'), wg.cell_layout(I1, stream=27, linear_fl='second'))
    I1sw = dict(I1, fl=[FL2, FL1])            # the same instrument, the two fluorescence parameters stored in the other order
    wg.write_fcs(os.path.join(d, 'cell_sw.fcs'), wg.cell_layout(I1sw, stream=25, n=860, voltages=[525, 500]))
    wg.write_fcs(os.path.join(d, 'cell_volt0.fcs'), wg.cell_layout(I1, stream=24, voltage_shift=-500))     # detector voltage of FL1 exactly 0
    return d


def bead_rows(variant):
    t = _FILES['truth']
    t2 = _FILES['truth2']
    both = {FL1: wg.mef_string(t, 0), FL2: wg.mef_string(t, 1)}
    only1 = {FL1: wg.mef_string(t, 0)}
    rows = [dict(id='B_OK', inst='INST1', file='beads_ok.fcs', gate_fraction=0.3, cluster='%s, %s' % (FL1, FL2), mef=both if variant == 'A' else only1),
            dict(id='B_FL1', inst='INST1', file='beads_ok.fcs', gate_fraction=0.3, cluster=FL1, mef=only1),
            dict(id='B_NF', inst='INST1', file='missing_beads.fcs', gate_fraction=0.3, cluster=FL1, mef=only1),
            dict(id='B_NOVAL', inst='INST1', file='beads_ok.fcs', gate_fraction=0.3, cluster=FL1, mef={}),
            dict(id='B_I2', inst='INST2', file='beads_i2.fcs', gate_fraction=0.3, cluster='FL1-A',
                 mef={})]
    return rows


def sample_row(pos, fault):
    """row descriptor for table position pos with the given fault"""
    # the rows of a table report different channel sets (position 2 reports FL1 only, on an integer file with saturated FL2 events: a
    # channel registered by a failed row above it must not be gated on)
    fl2_units = ['RFI', None, 'a.u.', None, 'Channel'][pos % 5]
    r = dict(id='S%d' % (pos + 1), inst='INST1', beads='B_OK', file='cell_%d.fcs' % (pos % 5), gate_fraction=[0.85, 0.5, 0.3, 1.0, 0.7][pos % 5],
             units={FL1: 'MEF', FL2: fl2_units})
    if pos % 5 == 3:
        # the float file of position 4 is linear in every channel: MEF from the log-amplified beads would be a (correct) row error
        r['units'] = {FL1: 'RFI', FL2: fl2_units}
    if pos % 5 in (2, 3):
        # rows 3 and 4 ask for no MEF and name a bead row that failed / has no MEF values: no fault as long as no MEF is asked for
        r['units'] = {FL1: 'RFI', FL2: fl2_units}
        r['beads'] = 'B_NF' if pos % 5 == 3 else 'B_NOVAL'
    if fault == 'ok':
        return r
    if fault == 'ok:inst2':
        # a healthy row acquired on the other instrument (other channel names throughout), reporting no channel
        r.update(inst='INST2', file='cell_i2.fcs', beads=None, units={FL1: None, FL2: None})
        return r
    if fault == 'ok:nounits':
        # a healthy row that reports no channel at all (every units cell empty: documented as "ignored")
        r['units'] = {FL1: None, FL2: None}
        return r
    if pos % 5 in (2, 3) and (fault.startswith('mef-') or fault in ('other-instrument', 'amp-differs', 'voltage-differs', 'voltage-zero', 'voltage-differs-second', 'amp-differs-second')):
        # these faults only exist for a row that asks for MEF: at these positions use an integer (log-amplified) file and ask for it
        r['file'] = 'cell_4.fcs' if pos % 5 == 3 else r['file']
        r['units'] = {FL1: 'MEF', FL2: fl2_units}
        r['beads'] = 'B_OK'
    if fault.startswith('units='):
        r['units'] = {FL1: 'RFI', FL2: fault[6:]}
        return r
    if fault.startswith('fraction='):
        r['gate_fraction'] = float(fault[9:])
        return r
    if fault == 'notfound':
        r['file'] = 'no_such_file_%d.fcs' % pos
    elif fault == 'notfound-below-a-file':
        r['file'] = 'cell_0.fcs/cell_%d.fcs' % pos          # a path continuing below a regular file
    elif fault == 'notfound-name-too-long':
        r['file'] = 'x' * 300 + '.fcs'
    elif fault == 'few':
        r['file'] = 'cell_few.fcs'
    elif fault == 'fraction-neg':
        r['gate_fraction'] = -0.1
    elif fault == 'fraction-big':
        r['gate_fraction'] = 1.5
    elif fault == 'units':
        r['units'] = {FL1: 'RFI', FL2: 'xyz'}
    elif fault == 'mef-beads-failed':
        r['beads'] = 'B_NF'
    elif fault == 'mef-beads-novalues':
        r['beads'] = 'B_NOVAL'
    elif fault == 'mef-nocurve':
        r['beads'] = 'B_FL1'
        r['units'] = {FL1: 'MEF', FL2: 'MEF'}
    elif fault == 'mef-nocolumn':
        r['units'] = {FL1: 'MEF', FL2: 'MEF'}       # variant B workbook: no FL2 MEF Values column at all
    elif fault == 'other-instrument':
        r['beads'] = 'B_I2'
    elif fault == 'amp-differs':
        r['file'] = 'cell_lin.fcs'
    elif fault == 'voltage-differs':
        r['file'] = 'cell_volt.fcs'
    elif fault == 'voltage-zero':
        r['file'] = 'cell_volt0.fcs'
    elif fault in ('voltage-differs-second', 'amp-differs-second'):
        r['file'] = 'cell_volt2.fcs' if fault.startswith('voltage') else 'cell_lin2.fcs'
        r['units'] = {FL1: 'MEF', FL2: 'MEF'}
        r['beads'] = 'B_OK'
    else:
        raise ValueError(fault)
    return r


def bead_row(pos, fault):
    t = _FILES['truth']
    r = dict(id='B%d' % (pos + 1), inst='INST1', file='beads_ok.fcs', gate_fraction=[0.3, 0.5, 0.4, 0.35][pos % 4],
             cluster=[FL1, '%s, %s' % (FL1, FL2), FL2, FL1][pos % 4], mef={FL1: wg.mef_string(t, 0), FL2: wg.mef_string(t, 1)})
    if fault == 'ok':
        return r
    if fault in ('ok:flat1', 'ok:flat2'):
        # healthy rows on the files with one unresolved channel: clustered on, and calibrated for, the other channel only
        k = int(fault[-1])
        tx = _FILES['truth_flat%d' % k]
        good = [FL1, FL2][2 - k]
        r.update(file='beads_flat%d.fcs' % k, cluster=good, mef={good: wg.mef_string(tx, 2 - k)})
        return r
    if fault.startswith('fraction='):
        r['gate_fraction'] = float(fault[9:])
        return r
    if fault == 'notfound':
        r['file'] = 'missing_beads_%d.fcs' % pos
    elif fault == 'notfound-below-a-file':
        r['file'] = 'beads_ok.fcs/beads_%d.fcs' % pos
    elif fault == 'unequal-mef-3ch':
        # three channels whose value counts differ in compensating directions (6, 5, 7)
        t3 = _FILES['truth3']
        v = [wg.mef_string(t3, ci).split(', ') for ci in range(3)]
        r.update(inst='INST3', file='beads_3ch.fcs', cluster=I3['fl'][0],
                 mef={I3['fl'][0]: ', '.join(v[0]), I3['fl'][1]: ', '.join(v[1][:-1]), I3['fl'][2]: ', '.join(v[2] + ['999999'])})
    elif fault == 'few':
        r['file'] = 'beads_few.fcs'
    elif fault == 'fraction-neg':
        r['gate_fraction'] = -0.1
    elif fault == 'fraction-big':
        r['gate_fraction'] = 1.5
    elif fault == 'unequal-mef':
        r['mef'] = {FL1: wg.mef_string(t, 0), FL2: ', '.join(wg.mef_string(t, 1).split(', ')[:-1])}
    return r


_BEADS = {}


def beads_context(variant):
    """processed Beads sheet (shared by all sample tables of this worker)"""
    import FlowCal
    if variant in _BEADS:
        return _BEADS[variant]
    d = ensure_files()
    wb = os.path.join(d, 'beads_%s.xlsx' % variant)
    wg.write_workbook(wb, [I1, I2], bead_rows(variant), [], mef_channels_cols=[FL1, FL2] if variant == 'A' else [FL1])
    ui = FlowCal.excel_ui
    inst = ui.read_table(wb, 'Instruments', 'ID')
    bt = ui.read_table(wb, 'Beads', 'ID')
    np.random.seed(1)
    with warnings.catch_warnings():
        warnings.simplefilter('ignore')
        bs, fx, outs = ui.process_beads_table(bt, inst, base_dir=d, verbose=False, plot=False, full_output=True)
        ui.add_beads_stats(bt, bs, outs)
    _BEADS[variant] = (inst, bt, bs, fx)
    return _BEADS[variant]


STAT_COLS = ['Mean', 'Geom. Mean', 'Median', 'Mode', 'Std', 'CV', 'Geom. Std', 'Geom. CV', 'IQR', 'RCV']
_SINGLE = {}


_RELDIR = [False]


def run_samples(rows, variant):
    """documented flow for a Samples sheet; returns (samples dict, table) or raises"""
    import FlowCal
    ui = FlowCal.excel_ui
    d = ensure_files()
    if _RELDIR[0]:
        # the workbook's folder given relative to the working directory (what run('folder/experiment.xlsx') passes on)
        cwd0 = os.getcwd()
        os.chdir(os.path.dirname(d))
        try:
            return _run_samples(rows, variant, os.path.basename(d), d)
        finally:
            os.chdir(cwd0)
    return _run_samples(rows, variant, d, d)


def _run_samples(rows, variant, base_dir, d):
    import FlowCal
    ui = FlowCal.excel_ui
    inst, bt, bs, fx = beads_context(variant)
    wb = os.path.join(d, 'samples_%d.xlsx' % os.getpid())
    wg.write_workbook(wb, [I1, I2], [], rows, unit_channels_cols=[FL1, FL2])
    st = ui.read_table(wb, 'Samples', 'ID')
    with warnings.catch_warnings():
        warnings.simplefilter('ignore')
        samples = ui.process_samples_table(st, inst, mef_transform_fxns=fx, beads_table=bt, base_dir=base_dir, verbose=False, plot=False)
        ui.add_samples_stats(st, samples)
        hist = ui.generate_histograms_table(st, samples)
    return samples, st, hist


def cases(tier, seed):
    F = SAMPLE_FAULTS
    # bead rows that can only be clustered on the channels their own row names (first in their worker: nothing remembered from an earlier table)
    for rows in (['ok:flat2', 'ok:flat1'], ['ok:flat1', 'ok:flat2'], ['ok:flat2', 'notfound', 'ok:flat1'], ['ok:flat1', 'ok', 'ok:flat2'], ['ok:flat1'], ['ok:flat2']):
        yield dict(kind='beads', rows=rows)
        yield dict(kind='samples', rows=[], filler=True)
    yield dict(kind='samples', rows=[])
    for R in (1, 2, 3, 4, 5):
        for assign in itertools.product(range(len(F)), repeat=R):
            nf = sum(1 for a in assign if a)
            if tier == 'quick':
                okc = (R <= 2) or (R == 3 and nf <= 1)
            else:
                okc = (R <= 3) or (R == 4 and nf <= 2) or (R == 5 and nf <= 1)
            if okc:
                yield dict(kind='samples', rows=[F[a] for a in assign])
    # row orders of healthy rows: the same healthy rows in every order (R <= 3)
    for R in (2, 3):
        for perm in itertools.permutations(range(R)):
            if list(perm) != list(range(R)):
                yield dict(kind='samples', rows=['ok'] * R, order=list(perm))
    for f in ['units=' + u for u in BAD_UNITS] + ['fraction=%r' % x for x in BAD_FRACTIONS]:
        for rows in ([f], ['ok', f], [f, 'ok'], ['ok', f, 'ok']) if tier == 'thorough' else ([f], [f, 'ok']):
            yield dict(kind='samples', rows=rows)
    # rows of two instruments with different channel names in one table, in both orders and around a faulty row
    for rows in (['ok', 'ok:inst2'], ['ok:inst2', 'ok'], ['ok:inst2', 'notfound', 'ok'], ['ok', 'ok:inst2', 'ok:inst2', 'ok'], ['ok:inst2']):
        yield dict(kind='samples', rows=rows)
    # the folder of the files given relative to the working directory, with rows whose file is missing before healthy rows
    for rows in (['notfound', 'ok'], ['ok', 'notfound', 'ok'], ['notfound', 'notfound', 'ok'], ['ok', 'few', 'notfound', 'ok'], ['ok']):
        yield dict(kind='samples', rows=rows, reldir=True)
    # healthy rows that report no channel at all, among reporting and faulty rows
    for rows in (['ok:nounits'], ['ok', 'ok:nounits'], ['ok:nounits', 'ok'], ['ok', 'ok:nounits', 'notfound', 'fraction-big', 'ok'], ['ok:nounits', 'ok:nounits'],
                 ['units', 'ok:nounits', 'ok']):
        yield dict(kind='samples', rows=rows)
    # settings that differ from the beads' in the second of two calibrated channels only
    for f in ('voltage-differs-second', 'amp-differs-second'):
        for rows in ([f], ['ok', f], [f, 'ok'], ['ok', f, 'ok'], [f, f]):
            yield dict(kind='samples', rows=rows)
    # files of one instrument that store the calibrated channels at different parameter positions, in every order of the rows
    for perm in itertools.permutations(['A', 'SW', 'C']):
        yield dict(kind='layouts', rows=list(perm))
    yield dict(kind='layouts', rows=['NF', 'SW', 'A'])
    yield dict(kind='layouts', rows=['A', 'NF', 'SW', 'C'])
    # a table that already carries the result columns of an earlier analysis, analysed again after rows have become faulty
    for bad in (['B'], ['C'], ['A', 'B'], ['A', 'B', 'C'], []):
        yield dict(kind='reanalysis', now_faulty=bad)
    B = BEAD_FAULTS
    yield dict(kind='beads', rows=[])
    for f in ['fraction=%r' % x for x in BAD_FRACTIONS]:
        for rows in ([f], ['ok', f], [f, 'ok']) if tier == 'thorough' else (['ok', f],):
            yield dict(kind='beads', rows=rows)
    for R in ((1, 2) if tier == 'quick' else (1, 2, 3)):
        for assign in itertools.product(range(len(B)), repeat=R):
            yield dict(kind='beads', rows=[B[a] for a in assign])
    if tier == 'thorough':
        for assign in itertools.product(range(len(B)), repeat=4):
            if sum(1 for a in assign if a) <= 1:
                yield dict(kind='beads', rows=[B[a] for a in assign])


def bounds(tier, seed):
    return {'sample_fault_kinds': SAMPLE_FAULTS, 'bead_fault_kinds': BEAD_FAULTS, 'unrecognised_units_menu': BAD_UNITS, 'fractions_outside_menu': BAD_FRACTIONS,
            'sample_tables': 'R<=2 complete, R=3 with <=1 fault' if tier == 'quick' else 'R<=3 complete, R=4 with <=2 faults, R=5 with <=1 fault',
            'bead_tables': 'R<=2 complete' if tier == 'quick' else 'R<=3 complete, R=4 with <=1 fault'}


def single_fp(pos, variant, f='ok'):
    key = (pos, variant, f, _RELDIR[0])          # (the path a sample was loaded from is part of the sample: relative and absolute folders are kept apart)
    if key not in _SINGLE:
        samples, st, hist = run_samples([sample_row(pos, f)], variant)
        s = samples['S%d' % (pos + 1)]
        if isinstance(s, Exception):
            raise RuntimeError('healthy reference row failed: %s' % s)
        _SINGLE[key] = (fp(s), st.loc['S%d' % (pos + 1)].to_dict(), hist_rows(hist, 'S%d' % (pos + 1)))
    return _SINGLE[key]


def _single_or_none(pos, variant, f):
    try:
        return single_fp(pos, variant, f)[0]
    except Exception:
        return None


def hist_rows(hist, sid):
    """the histogram rows of one sample: [(row labels after the sample id, values without the table-wide NaN padding)]"""
    out = []
    if sid not in set(hist.index.get_level_values(0)):
        return out
    sub = hist.loc[sid]
    for lab, row in zip(sub.index.tolist(), sub.values.tolist()):
        vals = list(row)
        while vals and vals[-1] != vals[-1]:
            vals.pop()
        out.append((lab, vals))
    return out


def fresh_flow(rows, st=None):
    """the documented flow from scratch (bead rows processed anew, nothing shared with other tables); returns (samples, table)"""
    import FlowCal
    ui = FlowCal.excel_ui
    d = ensure_files()
    wb = os.path.join(d, 'fresh_%d.xlsx' % os.getpid())
    wg.write_workbook(wb, [I1, I2], bead_rows('A'), rows, mef_channels_cols=[FL1, FL2], unit_channels_cols=[FL1, FL2])
    inst = ui.read_table(wb, 'Instruments', 'ID')
    bt = ui.read_table(wb, 'Beads', 'ID')
    if st is None:
        st = ui.read_table(wb, 'Samples', 'ID')
    np.random.seed(1)
    with warnings.catch_warnings():
        warnings.simplefilter('ignore')
        bs, fx, outs = ui.process_beads_table(bt, inst, base_dir=d, verbose=False, plot=False, full_output=True)
        ui.add_beads_stats(bt, bs, outs)
        samples = ui.process_samples_table(st, inst, mef_transform_fxns=fx, beads_table=bt, base_dir=d, verbose=False, plot=False)
        ui.add_samples_stats(st, samples)
    return samples, st


LAYOUT_ROWS = {'A': dict(id='RA', inst='INST1', beads='B_OK', file='cell_0.fcs', gate_fraction=0.85, units={FL1: 'MEF', FL2: 'RFI'}),
               'SW': dict(id='RSW', inst='INST1', beads='B_OK', file='cell_sw.fcs', gate_fraction=0.7, units={FL1: 'MEF', FL2: 'MEF'}),
               'C': dict(id='RC', inst='INST1', beads='B_OK', file='cell_1.fcs', gate_fraction=0.5, units={FL1: 'MEF', FL2: None}),
               'NF': dict(id='RNF', inst='INST1', beads='B_OK', file='not_there.fcs', gate_fraction=0.5, units={FL1: 'MEF', FL2: 'RFI'})}
RESULT_COLS = ['%s %s' % (ch, sc) for ch in (FL1, FL2) for sc in STAT_COLS + ['Detector Volt.', 'Amp. Type']] + ['Number of Events', 'Acquisition Time (s)']


def empty(v):
    return v is None or v != v or v == ''


def run_layouts(c, res):
    import FlowCal
    ui = FlowCal.excel_ui
    rows = [dict(LAYOUT_ROWS[k]) for k in c['rows']]
    what = 'Samples table with rows %s (files %s)' % (c['rows'], [r['file'] for r in rows])
    one = dict(c)
    try:
        samples, st = fresh_flow(rows)
    except Exception as e:
        res.violation('layouts:batch-aborted:%s' % type(e).__name__, '%s: %s escaped: %s' % (what, type(e).__name__, e), one)
        return
    if list(samples.keys()) != [r['id'] for r in rows]:
        res.violation('layouts:keys', '%s: results keyed %s' % (what, list(samples.keys())), one)
        return
    ok = True
    for k, r in zip(c['rows'], rows):
        s = samples[r['id']]
        if k == 'NF':
            if not isinstance(s, ui.ExcelUIException) or not str(st.loc[r['id'], 'Analysis Notes']).startswith('ERROR:'):
                res.violation('layouts:fault-not-reported', '%s: the row with the missing file yielded %s' % (what, type(s).__name__), one)
                ok = False
            continue
        if isinstance(s, Exception):
            res.violation('layouts:healthy-row-failed', '%s: healthy row %s failed: %s' % (what, r['id'], s), one)
            ok = False
            continue
        ref_samples, ref_st = fresh_flow([dict(LAYOUT_ROWS[k])])
        ref = ref_samples[r['id']]
        if isinstance(ref, Exception):
            raise RuntimeError('reference row failed: %s' % ref)
        if fp(s) != fp(ref):
            res.violation('layouts:healthy-row-differs', '%s: healthy row %s differs from its single-row run: %s' % (what, r['id'], diff(fp(s), fp(ref))), one)
            ok = False
            continue
        bad = [col for col in RESULT_COLS if col in ref_st.columns and not (st.loc[r['id'], col] == ref_st.loc[r['id'], col] or (empty(st.loc[r['id'], col]) and empty(ref_st.loc[r['id'], col])))]
        if bad:
            res.violation('layouts:healthy-row-stats-differ', '%s: result columns of healthy row %s differ from its single-row run in %s' % (what, r['id'], bad[:4]), one)
            ok = False
    if ok:
        res.ok('layouts', True)
    res.sample({'table': 'Samples', 'rows': c['rows'], 'files': [r['file'] for r in rows]})


def run_reanalysis(c, res):
    import FlowCal
    ui = FlowCal.excel_ui
    rows = [dict(LAYOUT_ROWS[k], id='R' + k) for k in ('A', 'C')] + [dict(LAYOUT_ROWS['A'], id='RB', file='cell_2.fcs', gate_fraction=0.3)]
    rows = [rows[0], rows[2], rows[1]]             # RA, RB, RC
    one = dict(c)
    samples1, st = fresh_flow(rows)
    first = {r['id']: st.loc[r['id']].to_dict() for r in rows}
    if any(isinstance(v, Exception) for v in samples1.values()):
        raise RuntimeError('first analysis failed: %r' % samples1)
    # the output table (with every result column filled in) becomes the input of a second analysis, written and read back as a workbook
    d = ensure_files()
    wb2 = os.path.join(d, 're_%d.xlsx' % os.getpid())
    ui.write_workbook(wb2, [('Samples', st)])
    st2 = ui.read_table(wb2, 'Samples', 'ID')
    for k in c['now_faulty']:
        if k == 'B':
            st2.loc['RB', 'File Path'] = 'gone.fcs'
        elif k == 'C':
            st2.loc['RC', 'Gate Fraction'] = 1.5
        else:
            st2.loc['RA', '%s Units' % FL2] = 'furlongs'
    what = 'second analysis of a table that carries the results of a first one, rows %s now faulty' % c['now_faulty']
    try:
        samples2, st2 = fresh_flow(rows, st=st2)
    except Exception as e:
        res.violation('reanalysis:batch-aborted:%s' % type(e).__name__, '%s: %s escaped: %s' % (what, type(e).__name__, e), one)
        return
    ok = True
    for r in rows:
        rid = r['id']
        faulty = rid[1:] in c['now_faulty']
        s = samples2[rid]
        if faulty:
            if not isinstance(s, ui.ExcelUIException) or not str(st2.loc[rid, 'Analysis Notes']).startswith('ERROR:'):
                res.violation('reanalysis:fault-not-reported', '%s: row %s yielded %s, note %r' % (what, rid, type(s).__name__, st2.loc[rid, 'Analysis Notes']), one)
                ok = False
                continue
            stale = [col for col in RESULT_COLS if col in st2.columns and not empty(st2.loc[rid, col])]
            if stale:
                res.violation('reanalysis:stale-results', '%s: failing row %s still shows %s = %r from the earlier analysis' % (what, rid, stale[0], st2.loc[rid, stale[0]]), one)
                ok = False
        else:
            if isinstance(s, Exception):
                res.violation('reanalysis:healthy-row-failed', '%s: healthy row %s failed: %s' % (what, rid, s), one)
                ok = False
                continue
            bad = [col for col in RESULT_COLS if col in st2.columns and not (st2.loc[rid, col] == first[rid].get(col) or (empty(st2.loc[rid, col]) and empty(first[rid].get(col))))]
            if bad or fp(s) != fp(samples1[rid]):
                res.violation('reanalysis:healthy-row-differs', '%s: healthy row %s differs from the first analysis (%s)' % (what, rid, bad[:3]), one)
                ok = False
    if ok:
        res.ok('reanalysis', True)
    res.sample({'reanalysis': 'rows now faulty: %s' % c['now_faulty']})


def run_case(c):
    import FlowCal
    ui = FlowCal.excel_ui
    res = Result()
    ensure_files()
    _RELDIR[0] = False
    if c['kind'] == 'layouts':
        run_layouts(c, res)
        return res
    if c['kind'] == 'reanalysis':
        run_reanalysis(c, res)
        return res
    if c['kind'] == 'samples':
        _RELDIR[0] = bool(c.get('reldir'))
        faults = c['rows']
        order = c.get('order') or list(range(len(faults)))
        variant = 'B' if 'mef-nocolumn' in faults else 'A'
        rows = [sample_row(p, faults[i]) for i, p in enumerate(order)]
        what = 'Samples table with rows %s' % [(r['id'], f) for r, f in zip(rows, faults)]
        one = dict(c)
        try:
            samples, st, hist = run_samples(rows, variant)
        except Exception as e:
            res.violation('samples:batch-aborted:%s:%s' % (type(e).__name__, '+'.join(sorted(set(f for f in faults if not f.startswith('ok'))))),
                          '%s: %s escaped: %s' % (what, type(e).__name__, e), one)
            return res
        if list(samples.keys()) != [r['id'] for r in rows]:
            res.violation('samples:keys', '%s: results are keyed %s' % (what, list(samples.keys())), one)
            return res
        ok = True
        for r, f, p in zip(rows, faults, order):
            s = samples[r['id']]
            note = st.loc[r['id'], 'Analysis Notes']
            statvals = [st.loc[r['id'], '%s %s' % (ch, sc)] for ch in (FL1, FL2) for sc in STAT_COLS] + [st.loc[r['id'], 'Number of Events']]
            if not f.startswith('ok'):
                if not isinstance(s, ui.ExcelUIException):
                    res.violation('samples:fault-not-reported:%s' % f, '%s: row %s (%s) yielded %s instead of a row error' % (what, r['id'], f, type(s).__name__), one)
                    ok = False
                elif not (isinstance(note, str) and note.startswith('ERROR:')):
                    res.violation('samples:no-error-note:%s' % f, '%s: row %s (%s) has note %r' % (what, r['id'], f, note), one)
                    ok = False
                elif not all(v != v or v == '' or v is None for v in statvals):
                    res.violation('samples:stats-not-empty:%s' % f, '%s: faulty row %s has statistics %r' % (what, r['id'], statvals[:4]), one)
                    ok = False
                elif r['id'] in set(hist.index.get_level_values(0)):
                    res.violation('samples:histogram-of-faulty-row:%s' % f, '%s: faulty row %s has histogram rows' % (what, r['id']), one)
                    ok = False
            else:
                if isinstance(s, Exception):
                    res.violation('samples:healthy-row-failed', '%s: healthy row %s failed: %s' % (what, r['id'], s), one)
                    ok = False
                    continue
                # same id/position-independent content as when processed alone
                try:
                    ref_fp, ref_row, ref_hist = single_fp(p, variant, f)
                except Exception as e:
                    res.violation('samples:single-row-run-aborted:%s' % type(e).__name__, '%s: the table holding only the healthy row %s (processed alone, for comparison) aborted with %s: %s' % (
                        what, r['id'], type(e).__name__, e), one)
                    ok = False
                    continue
                if fp(s) != ref_fp:
                    res.violation('samples:healthy-row-differs', '%s: healthy row %s differs from its single-row run: %s' % (what, r['id'], diff(fp(s), ref_fp)), one)
                    ok = False
                    continue
                if isinstance(note, str) and note.startswith('ERROR'):
                    res.violation('samples:healthy-row-error-note', '%s: healthy row %s has note %r' % (what, r['id'], note), one)
                    ok = False
                    continue
                row_now = st.loc[r['id']].to_dict()
                badcols = [k for k in ref_row if k not in ('Strain', 'Inducer (uM)') and not (row_now.get(k) == ref_row[k] or (row_now.get(k) != row_now.get(k) and ref_row[k] != ref_row[k]))]
                if badcols:
                    res.violation('samples:healthy-row-stats-differ', '%s: statistics of healthy row %s differ from its single-row run in %s' % (what, r['id'], badcols[:4]), one)
                    ok = False
                    continue
                hr = hist_rows(hist, r['id'])
                if hr != ref_hist:
                    res.violation('samples:healthy-row-histogram-differs', '%s: the histogram rows of healthy row %s differ from its single-row run (%s values per row, alone %s)' % (
                        what, r['id'], [len(v) for _, v in hr], [len(v) for _, v in ref_hist]), one)
                    ok = False
        # the same table processed without the optional beads table (the acquisition-settings comparison is then not made): every
        # other fault is still the row's error, every healthy row still equals its single-row result
        if ok and rows and not c.get('reldir') and (len(rows) <= 2 or any(f.startswith('mef-') for f in faults) or c.get('tier') == 'thorough'):
            inst_, bt_, bs_, fx_ = beads_context(variant)
            wb_nb = os.path.join(ensure_files(), 'samples_nb_%d.xlsx' % os.getpid())
            wg.write_workbook(wb_nb, [I1, I2], [], rows, unit_channels_cols=[FL1, FL2])
            st_nb = ui.read_table(wb_nb, 'Samples', 'ID')
            try:
                with warnings.catch_warnings():
                    warnings.simplefilter('ignore')
                    s_nb = ui.process_samples_table(st_nb, inst_, mef_transform_fxns=fx_, base_dir=ensure_files(), verbose=False, plot=False)
            except Exception as e:
                res.violation('samples:no-beads-table:batch-aborted:%s' % type(e).__name__, '%s, processed without beads_table: %s escaped: %s' % (what, type(e).__name__, e), one)
                return res
            needs_bt = ('other-instrument', 'amp-differs', 'voltage-differs', 'voltage-zero', 'mef-nocolumn', 'voltage-differs-second', 'amp-differs-second')
            for r, f, p in zip(rows, faults, order):
                s2 = s_nb.get(r['id'])
                if f in needs_bt:
                    continue
                if not f.startswith('ok'):
                    if not isinstance(s2, ui.ExcelUIException):
                        res.violation('samples:no-beads-table:fault-not-reported:%s' % f, '%s, processed without beads_table: row %s (%s) yielded %s instead of a row error' % (what, r['id'], f, type(s2).__name__), one)
                        ok = False
                elif isinstance(s2, Exception) or fp(s2) != _single_or_none(p, variant, f):
                    res.violation('samples:no-beads-table:healthy-row-differs', '%s, processed without beads_table: healthy row %s differs from its single-row result (%s)' % (what, r['id'], s2 if isinstance(s2, Exception) else 'other events'), one)
                    ok = False
        if not rows:
            if len(samples) != 0 or len(st) != 0:
                res.violation('samples:empty-table', 'an empty Samples table yields %d results' % len(samples), one)
                ok = False
        if ok:
            nf = sum(1 for f in faults if not f.startswith('ok'))
            res.ok('samples:R=%d:faults=%d' % (len(rows), nf), nf > 0)
        res.sample({'table': 'Samples', 'rows': faults, 'order': order})
        return res
    # bead tables
    faults = c['rows']
    d = ensure_files()
    rows = [bead_row(p, f) for p, f in enumerate(faults)]
    what = 'Beads table with rows %s' % [(r['id'], f) for r, f in zip(rows, faults)]
    one = dict(c)
    wb = os.path.join(d, 'beadstab_%d.xlsx' % os.getpid())
    wg.write_workbook(wb, [I1, I2, I3], rows, [], mef_channels_cols=[FL1, FL2, I3['fl'][2]])
    inst = ui.read_table(wb, 'Instruments', 'ID')
    bt = ui.read_table(wb, 'Beads', 'ID')
    try:
        np.random.seed(1)
        with warnings.catch_warnings():
            warnings.simplefilter('ignore')
            bs, fx, outs = ui.process_beads_table(bt, inst, base_dir=d, verbose=False, plot=False, full_output=True)
            ui.add_beads_stats(bt, bs, outs)
    except Exception as e:
        res.violation('beads:batch-aborted:%s:%s' % (type(e).__name__, '+'.join(sorted(set(f for f in faults if not f.startswith('ok'))))),
                      '%s: %s escaped: %s' % (what, type(e).__name__, e), one)
        return res
    ok = True
    # the results are keyed by row identifier: annotating the table from a mapping that lists them in another order gives the same table
    if len(rows) >= 2:
        import collections
        for label, order in (('reversed', list(reversed(list(bs.keys())))), ('rotated', list(bs.keys())[1:] + list(bs.keys())[:1])):
            bt2 = ui.read_table(wb, 'Beads', 'ID')
            try:
                with warnings.catch_warnings():
                    warnings.simplefilter('ignore')
                    ui.add_beads_stats(bt2, collections.OrderedDict((k_, bs[k_]) for k_ in order), outs)
            except Exception as e:
                res.violation('beads:stats-other-order-raises:%s' % type(e).__name__, '%s: add_beads_stats with the results listed in %s order raised %s: %s' % (what, label, type(e).__name__, e), one)
                ok = False
                break
            for col in ('Analysis Notes', 'Number of Events', 'Acquisition Time (s)'):
                a_, b_ = bt[col].tolist(), bt2[col].tolist()
                if not all(x == y or (x != x and y != y) for x, y in zip(a_, b_)):
                    res.violation('beads:stats-depend-on-mapping-order', '%s: column %r is %r when the results mapping lists the rows in %s order, %r in table order' % (what, col, b_, label, a_), one)
                    ok = False
                    break
            if not ok:
                break
    if not ok:
        return res
    # the short form (full_output=False) must report every row as well
    try:
        np.random.seed(1)
        with warnings.catch_warnings():
            warnings.simplefilter('ignore')
            bs_s, fx_s = ui.process_beads_table(ui.read_table(wb, 'Beads', 'ID'), inst, base_dir=d, verbose=False, plot=False, full_output=False)
        ids = [r['id'] for r in rows]
        if list(bs_s.keys()) != ids or list(fx_s.keys()) != ids:
            res.violation('beads:keys-short-form', '%s: process_beads_table(full_output=False) keys samples by %s and transformation functions by %s' % (
                what, list(bs_s.keys()), list(fx_s.keys())), one)
            return res
        for r, f in zip(rows, faults):
            if (not f.startswith('ok')) != (fx_s[r['id']] is None) or (not f.startswith('ok')) != isinstance(bs_s[r['id']], ui.ExcelUIException):
                res.violation('beads:short-form-row:%s' % f, '%s: process_beads_table(full_output=False) row %s (%s): sample %s, function %s' % (
                    what, r['id'], f, type(bs_s[r['id']]).__name__, type(fx_s[r['id']]).__name__), one)
                return res
    except Exception as e:
        res.violation('beads:batch-aborted-short-form:%s' % type(e).__name__, '%s: process_beads_table(full_output=False): %s escaped: %s' % (what, type(e).__name__, e), one)
        return res
    if list(bs.keys()) != [r['id'] for r in rows] or list(fx.keys()) != [r['id'] for r in rows]:
        res.violation('beads:keys', '%s: results are keyed %s' % (what, list(bs.keys())), one)
        return res
    for r, f, p in zip(rows, faults, range(len(rows))):
        s = bs[r['id']]
        note = bt.loc[r['id'], 'Analysis Notes']
        if not f.startswith('ok'):
            if not isinstance(s, ui.ExcelUIException) or fx[r['id']] is not None:
                res.violation('beads:fault-not-reported:%s' % f, '%s: row %s (%s) yielded %s' % (what, r['id'], f, type(s).__name__), one)
                ok = False
            elif not (isinstance(note, str) and note.startswith('ERROR:')) or bt.loc[r['id'], 'Number of Events'] == bt.loc[r['id'], 'Number of Events']:
                res.violation('beads:no-error-note:%s' % f, '%s: row %s (%s) has note %r / event count %r' % (what, r['id'], f, note, bt.loc[r['id'], 'Number of Events']), one)
                ok = False
            elif any(str(bt.loc[r['id'], '%s %s' % (ch, col)]) not in ('', 'nan') for ch in (FL1, FL2) for col in ('Amp. Type', 'Beads Params. Values', 'Detector Volt.')):
                res.violation('beads:stats-not-empty:%s' % f, '%s: faulty row %s has result columns filled in' % (what, r['id']), one)
                ok = False
        else:
            if isinstance(s, Exception) or fx[r['id']] is None:
                res.violation('beads:healthy-row-failed', '%s: healthy row %s failed: %s' % (what, r['id'], s), one)
                ok = False
                continue
            key = ('bead', p, f)
            # the calibration is that of the row's own beads: the standard curve maps each population's fluorescence to its stated value
            tx = _FILES['truth_flat%s' % f[-1]] if f != 'ok' else _FILES['truth']
            chans = [ch for ch in (FL1, FL2) if r['mef'].get(ch)]
            offc = None
            for k_, ch in enumerate(chans):
                ci = (FL1, FL2).index(ch)
                xs_ = np.array([float(x) for x in tx['rfi'][ci]])
                want_ = np.array([float(x) for x in tx['mef'][ci]])
                got_ = np.asarray(outs[r['id']].fitting['std_crv'][k_](xs_), dtype=float)
                if not np.all(np.abs(got_ / want_ - 1) < 0.25):
                    offc = (ch, got_.tolist(), want_.tolist())
                    break
            if offc:
                res.violation('beads:healthy-row-calibration-wrong', '%s: the standard curve of healthy row %s (clustering channels %r) for %s maps the bead populations to %s, their stated values are %s' % (
                    what, r['id'], r['cluster'], offc[0], [round(x, 1) for x in offc[1]], [round(x, 1) for x in offc[2]]), one)
                ok = False
                continue
            if key not in _SINGLE:
                wb1 = os.path.join(d, 'beadstab1_%d.xlsx' % os.getpid())
                wg.write_workbook(wb1, [I1, I2, I3], [bead_row(p, f)], [], mef_channels_cols=[FL1, FL2, I3['fl'][2]])
                bt1 = ui.read_table(wb1, 'Beads', 'ID')
                np.random.seed(1)
                with warnings.catch_warnings():
                    warnings.simplefilter('ignore')
                    bs1, fx1, outs1 = ui.process_beads_table(bt1, inst, base_dir=d, verbose=False, plot=False, full_output=True)
                _SINGLE[key] = (fp(bs1[r['id']]), [np.asarray(x).tolist() for x in outs1[r['id']].fitting['beads_params']])
            ref_fp, ref_params = _SINGLE[key]
            if fp(s) != ref_fp:
                res.violation('beads:healthy-row-differs', '%s: healthy row %s differs from its single-row run: %s' % (what, r['id'], diff(fp(s), ref_fp)), one)
                ok = False
                continue
            params = [np.asarray(x).tolist() for x in outs[r['id']].fitting['beads_params']]
            if not np.allclose(np.array(params), np.array(ref_params), rtol=1e-6):
                res.violation('beads:healthy-row-calibration-differs', '%s: calibration of healthy row %s differs from its single-row run' % (what, r['id']), one)
                ok = False
    if not rows and (len(bs) or len(fx)):
        res.violation('beads:empty-table', 'an empty Beads table yields results', one)
        ok = False
    if ok:
        nf = sum(1 for f in faults if not f.startswith('ok'))
        res.ok('beads:R=%d:faults=%d' % (len(rows), nf), nf > 0)
    res.sample({'table': 'Beads', 'rows': faults})
    return res
