"""fcverif -- bounded exhaustive exploration of FlowCal (see /verif/DESIGN.md)."""
