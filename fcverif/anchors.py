"""Vacuity guard: which anchored code of a property did the exploration really execute?

The anchors of properties.jsonl name functions ("io.py FCSData.__getitem__ (l.2113-2204)").  The
functions are resolved with ast on the CURRENT sources (line numbers drift with every commit),
a slice of the run's cases is re-executed in-process under `coverage`, and the fraction of the
executable lines of every anchored function that was hit is reported in the evidence.  This is a
report about the exploration, not a deciding step.
"""
import ast
import json
import os
import re
import time

ROOT = os.path.dirname(os.path.dirname(os.path.abspath(__file__)))


def anchored_functions(pid):
    p = next(json.loads(l) for l in open(os.path.join(ROOT, 'properties.jsonl')) if json.loads(l)['id'] == pid)
    out = []
    for m in p['anchors']['mechanism']:
        w = m.get('where', '')
        for part in re.split(r';\s*', w):
            fm = re.match(r'\s*([\w/]+\.py)\s+(.*)', part)
            if not fm:
                continue
            fname, rest = fm.group(1), fm.group(2)
            for name in re.findall(r'([A-Za-z_][\w\.]*)\s*(?:/\s*[A-Za-z_][\w\.]*\s*)*\(l\.', rest):
                out.append((fname, name))
            for name in re.findall(r'/\s*([A-Za-z_][\w\.]*)', rest):
                out.append((fname, name))
    seen, res = set(), []
    for x in out:
        if x not in seen and x[1] not in ('l',):
            seen.add(x)
            res.append(x)
    return res


def function_lines(path, qualname):
    """executable line numbers (statement starts) of a function / method given as 'f' or 'Class.f'"""
    tree = ast.parse(open(path).read())
    parts = qualname.split('.')
    node = tree
    for part in parts:
        found = None
        for n in ast.walk(node) if node is tree else ast.iter_child_nodes(node):
            if isinstance(n, (ast.FunctionDef, ast.ClassDef)) and n.name == part:
                found = n
                break
        if found is None:
            return None
        node = found
    lines = set()
    for n in ast.walk(node):
        if isinstance(n, ast.stmt) and not isinstance(n, (ast.FunctionDef, ast.ClassDef)):
            if isinstance(n, ast.Expr) and isinstance(getattr(n, 'value', None), ast.Constant) and isinstance(n.value.value, str):
                continue       # docstring
            lines.add(n.lineno)
    return lines


class _Budget(BaseException):
    pass


def _measure_child(pid, mod, picked, funcs, repo, budget_s, conn):
    import signal
    import coverage

    def on_alarm(signum, frame):
        raise _Budget()
    cov = coverage.Coverage(data_file=None, include=[os.path.join(repo, 'FlowCal', '*'), os.path.join(repo, 'examples', '*')])
    signal.signal(signal.SIGALRM, on_alarm)
    signal.setitimer(signal.ITIMER_REAL, budget_s)
    n = 0
    cov.start()
    try:
        for c in picked:
            try:
                mod.run_case(c)
            except _Budget:
                raise
            except Exception:
                pass
            n += 1
    except _Budget:
        pass
    finally:
        signal.setitimer(signal.ITIMER_REAL, 0)
        cov.stop()
    data = cov.get_data()
    out = {'cases_traced': n, 'partial_case': n < len(picked), 'functions': {}}
    for fname, q in funcs:
        path_ = os.path.join(repo, 'FlowCal', os.path.basename(fname)) if not fname.startswith('examples') else os.path.join(repo, fname)
        if not os.path.exists(path_):
            continue
        want = function_lines(path_, q)
        if want is None:
            out['functions']['%s:%s' % (fname, q)] = 'not found in the current source'
            continue
        hit = set(data.lines(path_) or ())
        out['functions']['%s:%s' % (fname, q)] = '%d of %d statements executed' % (len(want & hit), len(want))
    conn.send(out)
    conn.close()


def measure(pid, mod, tier, seed, budget_s=8.0, max_cases=12):
    """Runs a slice of the cases under coverage in a child process with a hard time budget (tracing makes a
    case 10-50x slower; a case cut short still contributes the lines it reached)."""
    import multiprocessing as mp
    try:
        import coverage      # noqa: F401
    except ImportError:
        return {'note': 'coverage not available'}
    repo = os.path.realpath(os.environ.get('FCVERIF_REPO', '/repo'))
    funcs = anchored_functions(pid)
    cases = list(mod.cases(tier, seed))
    if not cases:
        return {}
    step = max(1, len(cases) // max_cases)
    picked = cases[::step][:max_cases]
    # one case of every kind first (the last case of a kind is usually the smallest block), then the strided slice
    kinds = {}
    for c_ in cases:
        if isinstance(c_, dict):
            kinds[c_.get('kind', '')] = c_
    picked = list(kinds.values()) + [c_ for c_ in picked if c_ not in kinds.values()]
    ctx = mp.get_context('fork')
    parent, child = ctx.Pipe(duplex=False)
    p = ctx.Process(target=_measure_child, args=(pid, mod, picked, funcs, repo, budget_s, child))
    p.daemon = True
    p.start()
    child.close()
    out = None
    if parent.poll(budget_s + 20):
        try:
            out = parent.recv()
        except EOFError:
            out = None
    if p.is_alive():
        p.terminate()
    p.join(timeout=5)
    return out if out is not None else {'note': 'not measured within the time budget'}
