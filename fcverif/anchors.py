"""Vacuity guard: which anchored code of a property did the exploration really execute?

The anchors of properties.jsonl name functions ("io.py FCSData.__getitem__ (l.2113-2204)").  The
functions are resolved with ast on the CURRENT sources (line numbers drift with every commit),
a slice of the run's cases is re-executed in-process under `coverage`, and the fraction of the
executable lines of every anchored function that was hit is reported in the evidence.  This is a
report about the exploration, not a deciding step.
"""
import ast
import json
import os
import re
import time

ROOT = os.path.dirname(os.path.dirname(os.path.abspath(__file__)))


def anchored_functions(pid):
    p = next(json.loads(l) for l in open(os.path.join(ROOT, 'properties.jsonl')) if json.loads(l)['id'] == pid)
    out = []
    for m in p['anchors']['mechanism']:
        w = m.get('where', '')
        for part in re.split(r';\s*', w):
            fm = re.match(r'\s*([\w/]+\.py)\s+(.*)', part)
            if not fm:
                continue
            fname, rest = fm.group(1), fm.group(2)
            for name in re.findall(r'([A-Za-z_][\w\.]*)\s*(?:/\s*[A-Za-z_][\w\.]*\s*)*\(l\.', rest):
                out.append((fname, name))
            for name in re.findall(r'/\s*([A-Za-z_][\w\.]*)', rest):
                out.append((fname, name))
    seen, res = set(), []
    for x in out:
        if x not in seen and x[1] not in ('l',):
            seen.add(x)
            res.append(x)
    return res


def function_lines(path, qualname):
    """executable line numbers (statement starts) of a function / method given as 'f' or 'Class.f'"""
    tree = ast.parse(open(path).read())
    parts = qualname.split('.')
    node = tree
    for part in parts:
        found = None
        for n in ast.walk(node) if node is tree else ast.iter_child_nodes(node):
            if isinstance(n, (ast.FunctionDef, ast.ClassDef)) and n.name == part:
                found = n
                break
        if found is None:
            return None
        node = found
    lines = set()
    for n in ast.walk(node):
        if isinstance(n, ast.stmt) and not isinstance(n, (ast.FunctionDef, ast.ClassDef)):
            if isinstance(n, ast.Expr) and isinstance(getattr(n, 'value', None), ast.Constant) and isinstance(n.value.value, str):
                continue       # docstring
            lines.add(n.lineno)
    return lines


def measure(pid, mod, tier, seed, budget_s=6.0, max_cases=12):
    try:
        import coverage
    except ImportError:
        return {'note': 'coverage not available'}
    repo = os.path.realpath(os.environ.get('FCVERIF_REPO', '/repo'))
    funcs = anchored_functions(pid)
    cases = list(mod.cases(tier, seed))
    if not cases:
        return {}
    step = max(1, len(cases) // max_cases)
    picked = cases[::step][:max_cases]
    cov = coverage.Coverage(data_file=None, include=[os.path.join(repo, 'FlowCal', '*'), os.path.join(repo, 'examples', '*')])
    t0 = time.time()
    n = 0
    cov.start()
    try:
        for c in picked:
            try:
                mod.run_case(c)
            except Exception:
                pass
            n += 1
            if time.time() - t0 > budget_s:
                break
    finally:
        cov.stop()
    data = cov.get_data()
    out = {'cases_traced': n, 'functions': {}}
    for fname, q in funcs:
        path = os.path.join(repo, 'FlowCal', os.path.basename(fname)) if not fname.startswith('examples') else os.path.join(repo, fname)
        if not os.path.exists(path):
            continue
        want = function_lines(path, q)
        if want is None:
            out['functions']['%s:%s' % (fname, q)] = 'not found in the current source'
            continue
        hit = set(data.lines(path) or ())
        got = want & hit
        out['functions']['%s:%s' % (fname, q)] = '%d of %d statements executed' % (len(got), len(want))
    return out
