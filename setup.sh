#!/bin/bash
# Offline setup: nothing to build (pure Python, uses /venv with FlowCal installed editable from /repo).
cd "$(dirname "$0")"
mkdir -p evidence replays
PYTHONPATH=/verif:/repo /venv/bin/python -c "import fcverif.textref, fcverif.explore, fcverif.fcsgen, FlowCal; print('fcverif ok, FlowCal from', FlowCal.__file__)"
